import HC.Model.Core
/-!
Model of the replication side of `src/tree/merkle_tree.rs` and `src/core.rs`:
`missing_nodes`, `create_valueless_proof` / `create_proof` (block, hash, seek, upgrade, additional
nodes) and `verify_tree` / `verify_upgrade` / `verify_proof` / `verify_and_apply_proof`.

This is a line-by-line port: the Rust `while` loops become fuel-bounded recursions.  Explicit panic
sites of the Rust (index into an empty root list, `expect`) and fuel exhaustion (= a loop that does
not terminate) are `.error .panic`; every other failure is `.error .err`.

Panic-site table (trusted hand audit, exercised by the C09 run):
| Rust site                                             | model                              |
|-------------------------------------------------------|------------------------------------|
| `changeset.roots[len-1]` in `verify_upgrade`          | `lastRoot?` = none → `.err` (repaired) |
| `p.nodes/p.upgrade/signature` `expect`s               | `.err` (repaired)                  |
| `while iter.index() != root` climbing loops (create side) | fuel 80 → `.panic`              |
| loops of `verify_upgrade`                             | fuel = a bound on the rounds derived from the inputs (see `Proofs/VerifyTotal`) → `.panic` |
| `node.length - parent.length` in byte_offset_in_changeset | Nat subtraction (sizes are sums)  |
-/
namespace HC
open Codec Flat Oplog

structure Proof where
  fork : Nat
  block : Option DataBlock := none
  hash : Option DataHash := none
  seek : Option DataSeek := none
  upgrade : Option DataUpgrade := none
deriving DecidableEq, Repr, Inhabited

namespace Tree

/-- `missing_nodes` from a tree index -/
def missingNodes (t : Tree) (f : File) (index : Nat) : Nat :=
  let head := 2 * t.length
  let it := Iter.new index
  if it.index + it.factor / 2 - 1 ≥ head then 0
  else
    let rec go : Nat → Iter → Nat → Nat
      | 0, _, c => c
      | fuel+1, it, c =>
        if it.contains head then c
        else match t.node? f it.index with
          | some _ => c
          | none => go fuel it.parent (c + 1)
    go 70 it 0

structure Indexed where
  value : Bool
  index : Nat
  nodes : Nat
  lastIndex : Nat

structure LocalProof where
  seek : Option (List Node) := none
  nodes : Option (List Node) := none
  upgrade : Option (List Node) := none
  additional : Option (List Node) := none

def nodesToRoot (index nodes head : Nat) : R Nat :=
  let rec go : Nat → Nat → Iter → R Nat
    | _, 0, it => .ok it.index
    | 0, _, _ => .error .err
    | fuel+1, n+1, it =>
      let p := it.parent
      if p.contains head then .error .err else go fuel n p
  go 80 nodes (Iter.new index)

def seekTrustedTree (t : Tree) (f : File) (root bytes : Nat) : R Nat :=
  if bytes = 0 then .ok root else
  let rec go : Nat → Iter → Nat → R Nat
    | 0, _, _ => .error .panic
    | fuel+1, it, bytes =>
      if it.index % 2 = 0 then .ok it.index
      else
        let l := it.leftChild
        match t.node? f l.index with
        | some n =>
          if n.length = bytes then .ok l.index
          else if n.length > bytes then go fuel l bytes
          else go fuel l.sibling (bytes - n.length)
        | none => .ok l.parent.index
  go 80 (Iter.new root) bytes

def seekUntrustedTree (t : Tree) (f : File) (root bytes : Nat) : R Nat :=
  match t.byteOffsetFromNodes f root with
  | .error e => .error e
  | .ok offset =>
    if offset > bytes then .error .err
    else if offset = bytes then .ok root
    else
      let bytes := bytes - offset
      match t.requiredNode f root with
      | .error e => .error e
      | .ok n => if n.length ≤ bytes then .error .err else t.seekTrustedTree f root bytes

def seekFromHead (t : Tree) (f : File) (head bytes : Nat) : R Nat :=
  let rec go : List Nat → Nat → R Nat
    | [], _ => .ok head
    | r :: rs, bytes =>
      match t.requiredNode f r with
      | .error e => .error e
      | .ok n =>
        if bytes = n.length then .ok r
        else if bytes > n.length then go rs (bytes - n.length)
        else t.seekTrustedTree f r bytes
  go (fullRoots head) bytes

def seekProof (t : Tree) (f : File) (seekRoot root : Nat) (p : LocalProof) : R LocalProof :=
  if !(Iter.new root).contains seekRoot then .error .err else
  match t.requiredNode f seekRoot with
  | .error e => .error e
  | .ok n0 =>
    let rec go : Nat → Iter → List Node → R (List Node)
      | 0, _, _ => .error .panic
      | fuel+1, it, acc =>
        if it.index = root then .ok acc
        else
          let s := it.sibling
          match t.requiredNode f s.index with
          | .error e => .error e
          | .ok n => go fuel s.parent (acc ++ [n])
    match go 80 (Iter.new seekRoot) [n0] with
    | .error e => .error e
    | .ok ns => .ok { p with seek := some ns }

def blockAndSeekProof (t : Tree) (f : File) (indexed : Option Indexed) (isSeek : Bool) (seekRoot root : Nat)
    (p : LocalProof) : R LocalProof :=
  match indexed with
  | none => t.seekProof f seekRoot root p
  | some ix =>
    if !(Iter.new root).contains ix.index then .error .err else
    let start : R (List Node) :=
      if !ix.value then (match t.requiredNode f ix.index with | .error e => .error e | .ok n => .ok [n]) else .ok []
    match start with
    | .error e => .error e
    | .ok ns0 =>
      let rec go : Nat → Iter → List Node → LocalProof → R (List Node × LocalProof)
        | 0, _, _, _ => .error .panic
        | fuel+1, it, acc, p =>
          if it.index = root then .ok (acc, p)
          else
            let s := it.sibling
            if isSeek && s.contains seekRoot && s.index ≠ seekRoot then
              match t.seekProof f seekRoot s.index p with
              | .error e => .error e
              | .ok p' => go fuel s.parent acc p'
            else
              match t.requiredNode f s.index with
              | .error e => .error e
              | .ok n => go fuel s.parent (acc ++ [n]) p
      match go 80 (Iter.new ix.index) ns0 p with
      | .error e => .error e
      | .ok (ns, p') => .ok { p' with nodes := some ns }

/-- the "connect existing tree" walk shared by `upgrade_proof` and `additional_upgrade_proof` -/
def connectWalk (t : Tree) (f : File) (useSub : Bool) (indexed : Option Indexed) (isSeek : Bool) (subTree : Nat)
    (root target : Nat) : Nat → Iter → List Node → LocalProof → R (List Node × LocalProof)
  | 0, _, _, _ => .error .panic
  | fuel+1, it, acc, p =>
    if it.index = root then .ok (acc, p)
    else
      let s := it.sibling
      if s.index > target then
        if useSub && p.nodes.isNone && p.seek.isNone && s.contains subTree then
          match t.blockAndSeekProof f indexed isSeek subTree s.index p with
          | .error e => .error e
          | .ok p' => connectWalk t f useSub indexed isSeek subTree root target fuel s.parent acc p'
        else
          match t.requiredNode f s.index with
          | .error e => .error e
          | .ok n => connectWalk t f useSub indexed isSeek subTree root target fuel s.parent (acc ++ [n]) p
      else connectWalk t f useSub indexed isSeek subTree root target fuel s.parent acc p

/-- the root loop of `upgrade_proof` (`useSub = true`) and `additional_upgrade_proof` (`false`) -/
def upgradeLoop (t : Tree) (f : File) (useSub : Bool) (indexed : Option Indexed) (isSeek : Bool)
    (frm to subTree : Nat) : Nat → Iter → Bool → List Node → LocalProof → R (Bool × List Node × LocalProof)
  | 0, _, _, _, _ => .error .panic
  | fuel+1, it, hasUp, acc, p =>
    let (full, it) := it.fullRoot to
    if !full then .ok (hasUp, acc, p)
    else if it.index + it.factor / 2 < frm then
      upgradeLoop t f useSub indexed isSeek frm to subTree fuel it.nextTree hasUp acc p
    else if !hasUp && it.contains (frm - 2) then
      match connectWalk t f useSub indexed isSeek subTree it.index (frm - 2) 80 (Iter.new (frm - 2)) acc p with
      | .error e => .error e
      | .ok (acc', p') => upgradeLoop t f useSub indexed isSeek frm to subTree fuel it.nextTree true acc' p'
    else if useSub && p.nodes.isNone && p.seek.isNone && it.contains subTree then
      match t.blockAndSeekProof f indexed isSeek subTree it.index p with
      | .error e => .error e
      | .ok p' => upgradeLoop t f useSub indexed isSeek frm to subTree fuel it.nextTree true acc p'
    else
      match t.requiredNode f it.index with
      | .error e => .error e
      | .ok n => upgradeLoop t f useSub indexed isSeek frm to subTree fuel it.nextTree true (acc ++ [n]) p

def upgradeProof (t : Tree) (f : File) (indexed : Option Indexed) (isSeek : Bool) (frm to subTree : Nat)
    (p : LocalProof) : R LocalProof :=
  match upgradeLoop t f true indexed isSeek frm to subTree 80 (Iter.new 0) (frm = 0) [] p with
  | .error e => .error e
  | .ok (hasUp, ns, p') => .ok (if hasUp then { p' with upgrade := some ns } else p')

def additionalUpgradeProof (t : Tree) (f : File) (frm to : Nat) (p : LocalProof) : R LocalProof :=
  match upgradeLoop t f false none false frm to 0 80 (Iter.new 0) (frm = 0) [] p with
  | .error e => .error e
  | .ok (hasUp, ns, p') => .ok (if hasUp then { p' with additional := some ns } else p')

structure ValuelessProof where
  fork : Nat
  block : Option DataHash
  hash : Option DataHash
  seek : Option DataSeek
  upgrade : Option DataUpgrade

/-- `create_valueless_proof` -/
def createValuelessProof (t : Tree) (f : File) (block hash : Option RequestBlock) (seek : Option RequestSeek)
    (upgrade : Option RequestUpgrade) : R ValuelessProof :=
  let head := 2 * t.length
  let (frm, to) := match upgrade with
    | some u => (u.start * 2, u.start * 2 + u.length * 2)
    | none => (0, head)
  let indexed : Option Indexed := match block, hash with
    | some b, _ => some ⟨true, b.index * 2, b.nodes, b.index⟩
    | none, some h => some ⟨false, h.index, h.nodes, rightSpan h.index / 2⟩
    | none, none => none
  if frm ≥ to ∨ to > head then .error .err else
  -- first stage: block/hash (+ seek) in an untrusted sub tree
  let stage1 : R (Nat × LocalProof × Bool) :=
    match indexed with
    | none => .ok (head, {}, false)
    | some ix =>
      if seek.isSome && upgrade.isSome && ix.index ≥ frm then .error .err else
      let untrusted := match upgrade with
        | some u => decide (ix.lastIndex < u.start)
        | none => true
      if untrusted then
        match nodesToRoot ix.index ix.nodes to with
        | .error e => .error e
        | .ok subTree =>
          let seekRoot : R Nat := match seek with
            | some s => t.seekUntrustedTree f subTree s.bytes
            | none => .ok head
          match seekRoot with
          | .error e => .error e
          | .ok sr =>
            match t.blockAndSeekProof f (some ix) seek.isSome sr subTree {} with
            | .error e => .error e
            | .ok p => .ok (subTree, p, true)
      else if upgrade.isSome then .ok (ix.index, {}, false)
      else .ok (head, {}, false)
  match stage1 with
  | .error e => .error e
  | .ok (subTree, p, untrusted) =>
    let stage2 : R Nat :=
      if !untrusted then
        match seek with
        | some s => t.seekFromHead f to s.bytes
        | none => .ok subTree
      else .ok subTree
    match stage2 with
    | .error e => .error e
    | .ok subTree =>
      let stage3 : R LocalProof :=
        if upgrade.isSome then
          match t.upgradeProof f indexed seek.isSome frm to subTree p with
          | .error e => .error e
          | .ok p1 => if head > to then t.additionalUpgradeProof f to head p1 else .ok p1
        else .ok p
      match stage3 with
      | .error e => .error e
      | .ok p =>
        let blk : R (Option DataHash) := match block with
          | some b => (match p.nodes with | some ns => .ok (some ⟨b.index, ns⟩) | none => .error .err)
          | none => .ok none
        let hsh : R (Option DataHash) := match block, hash with
          | none, some h => (match p.nodes with | some ns => .ok (some ⟨h.index, ns⟩) | none => .error .err)
          | _, _ => .ok none
        let sk : Option DataSeek := match seek with
          | some s => p.seek.map fun ns => ⟨s.bytes, ns⟩
          | none => none
        let up : R (Option DataUpgrade) := match upgrade with
          | some u =>
            (match p.upgrade, t.signature with
             | some ns, some sig => .ok (some ⟨u.start, u.length, ns, p.additional.getD [], sig⟩)
             | _, _ => .error .err)
          | none => .ok none
        match blk, hsh, up with
        | .ok b, .ok h, .ok u => .ok ⟨t.fork, b, h, sk, u⟩
        | .error e, _, _ => .error e
        | _, .error e, _ => .error e
        | _, _, .error e => .error e

/-! ### verification -/

structure NodeQueue where
  nodes : List Node
  extra : Option Node
  length : Nat

def NodeQueue.new (nodes : List Node) (extra : Option Node) : NodeQueue :=
  ⟨nodes, extra, nodes.length + (if extra.isSome then 1 else 0)⟩

def NodeQueue.shift (q : NodeQueue) (index : Nat) : R (Node × NodeQueue) :=
  match q.extra with
  | some e =>
    if e.index = index then .ok (e, { q with extra := none, length := q.length - 1 })
    else (match q.nodes with
      | [] => .error .err
      | n :: ns => if n.index ≠ index then .error .err else .ok (n, { q with nodes := ns, length := q.length - 1 }))
  | none =>
    match q.nodes with
    | [] => .error .err
    | n :: ns => if n.index ≠ index then .error .err else .ok (n, { q with nodes := ns, length := q.length - 1 })

def parentNode (C : Crypto) (index : Nat) (a b : Node) : Node := ⟨index, a.length + b.length, parentHash C a b⟩
def blockNode (C : Crypto) (index : Nat) (v : Bytes) : Node := ⟨index, v.length, C.leaf v⟩

/-- the climb shared by both halves of `verify_tree`: consume the queue, hashing upwards;
    `rnodes` accumulates the changeset's nodes (newest first) -/
def climb (C : Crypto) : Nat → NodeQueue → Iter → Node → List Node → R (Node × List Node)
  | 0, _, _, _, _ => .error .panic
  | fuel+1, q, it, cur, rnodes =>
    if q.length = 0 then .ok (cur, rnodes)
    else
      let s := it.sibling
      match q.shift s.index with
      | .error e => .error e
      | .ok (n, q') =>
        let p := s.parent
        let par := parentNode C p.index cur n
        climb C fuel q' p par (par :: n :: rnodes)

/-- sequencing of fallible steps (what `?` does in the Rust) -/
def andThen {α β : Type} (r : R α) (f : α → R β) : R β :=
  match r with
  | .error e => .error e
  | .ok a => f a

/-- seek half of `verify_tree`: hash the seek nodes up to their root -/
def seekHalf (C : Crypto) (seek : Option DataSeek) (rn : List Node) : R (Option Node × List Node) :=
  match seek with
  | none => .ok (none, rn)
  | some s =>
    match s.nodes with
    | [] => .ok (none, rn)
    | n0 :: _ =>
      let it := Iter.new n0.index
      andThen ((NodeQueue.new s.nodes none).shift it.index) fun (node, q) =>
        andThen (climb C (q.length + 1) q it node (node :: rn)) fun (root, rn') => .ok (some root, rn')

/-- block/hash half of `verify_tree` -/
def mainHalf (C : Crypto) (value : Option Bytes) (index : Nat) (nodes : List Node) (root : Option Node)
    (rn : List Node) : R (Node × List Node) :=
  let it := Iter.new index
  let q := NodeQueue.new nodes root
  let first : R (Node × NodeQueue) := match value with
    | some v => .ok (blockNode C it.index v, q)
    | none => q.shift it.index
  andThen first fun (node, q) => climb C (q.length + 1) q it node (node :: rn)

/-- `normalize_data`: (value, tree index, nodes) of the block or hash section -/
def untrustedOf (block : Option DataBlock) (hash : Option DataHash) : Option (Option Bytes × Nat × List Node) :=
  match block, hash with
  | some b, _ => some (some b.value, b.index * 2, b.nodes)
  | none, some h => some (none, h.index, h.nodes)
  | none, none => none

def noSeekOf (seek : Option DataSeek) : Bool :=
  match seek with | some s => s.nodes.isEmpty | none => true

/-- `verify_tree` -/
def verifyTree (C : Crypto) (block : Option DataBlock) (hash : Option DataHash) (seek : Option DataSeek)
    (cs : Changeset) : R (Option Node × Changeset) :=
  let untrusted := untrustedOf block hash
  if untrusted.isNone && noSeekOf seek then .ok (none, cs) else
  andThen (seekHalf C seek cs.rnodes) fun (root, rn) =>
    match untrusted with
    | none => .ok (root, { cs with rnodes := rn })
    | some (value, index, nodes) =>
      andThen (mainHalf C value index nodes root rn) fun (r, rn') => .ok (some r, { cs with rnodes := rn' })

structure UpState where
  cs : Changeset
  it : Iter
  q : NodeQueue
  i : Nat
  grow : Bool

/-- inner loop of the "grow" branch: `while iter.index() != root_index { append_root(q.shift(iter.sibling())) }` -/
def growLoop (C : Crypto) (rootIndex : Nat) : Nat → Changeset → Iter → NodeQueue → R (Changeset × Iter × NodeQueue)
  | 0, _, _, _ => .error .panic
  | fuel+1, cs, it, q =>
    if it.index = rootIndex then .ok (cs, it, q)
    else
      let s := it.sibling
      match q.shift s.index with
      | .error e => .error e
      | .ok (n, q') =>
        let (cs', it') := appendRoot C cs n s
        growLoop C rootIndex fuel cs' it' q'

/-- main loop of `verify_upgrade` over the full roots of `to` -/
def upgradeRoots (C : Crypto) (to : Nat) : Nat → UpState → R UpState
  | 0, _ => .error .panic
  | fuel+1, st =>
    let (full, it) := st.it.fullRoot to
    if !full then .ok { st with it := it }
    else if st.i < st.cs.roots.length ∧ (st.cs.roots.getD st.i default).index = it.index then
      upgradeRoots C to fuel { st with i := st.i + 1, it := it.nextTree }
    else if st.grow ∧ st.i < st.cs.roots.length then
      let rootIndex := it.index
      let last := (st.cs.roots.getLast?.getD default).index
      match growLoop C rootIndex (st.q.nodes.length + 3) st.cs (Iter.new last) st.q with
      | .error e => .error e
      | .ok (cs', it', q') => upgradeRoots C to fuel { st with cs := cs', it := it'.nextTree, q := q', grow := false }
    else
      match st.q.shift it.index with
      | .error e => .error e
      | .ok (n, q') =>
        let (cs', it') := appendRoot C st.cs n it
        upgradeRoots C to fuel { st with cs := cs', it := it'.nextTree, q := q', grow := false }

/-- additional nodes, first phase: while the next one is the sibling of the last root -/
def extraSiblings (C : Crypto) : Nat → Changeset → Iter → List Node → Changeset × Iter × List Node
  | 0, cs, it, ex => (cs, it, ex)
  | _, cs, it, [] => (cs, it, [])
  | fuel+1, cs, it, n :: ex =>
    let s := it.sibling
    if n.index = s.index then
      let (cs', it') := appendRoot C cs n s
      extraSiblings C fuel cs' it' ex
    else (cs, s, n :: ex)

def descendTo (target : Nat) : Nat → Iter → R Iter
  | 0, _ => .error .panic
  | fuel+1, it =>
    if it.index = target then .ok it
    else if it.factor = 2 then .error .err
    else descendTo target fuel it.leftChild

/-- additional nodes, second phase -/
def extraRest (C : Crypto) : Changeset → Iter → List Node → R (Changeset × Iter)
  | cs, it, [] => .ok (cs, it)
  | cs, it, n :: ex =>
    match descendTo n.index (it.factor + 1) it with
    | .error e => .error e
    | .ok it1 =>
      let (cs', it2) := appendRoot C cs n it1
      extraRest C cs' it2.sibling ex

/-- last step of `verify_upgrade`: set the fork, check the signature over the resulting roots -/
def checkSignature (C : Crypto) (fork : Nat) (u : DataUpgrade) (pk : Bytes) (consumed : Bool) (cs2 : Changeset) :
    R (Bool × Changeset) :=
  let cs3 := { cs2 with fork := fork }
  if u.signature.length ≠ 64 then .error .err else
  let h := rootsHash C cs3.roots
  if !C.verify pk (signable h cs3.length cs3.fork) u.signature then .error .err
  else .ok (consumed, { cs3 with hash := some h, signature := some u.signature })

/-- `verify_upgrade`; returns whether the block root was consumed by the upgrade -/
def verifyUpgrade (C : Crypto) (fork : Nat) (u : DataUpgrade) (blockRoot : Option Node) (pk : Bytes)
    (cs : Changeset) : R (Bool × Changeset) :=
  let st0 : UpState := ⟨cs, Iter.new 0, NodeQueue.new u.nodes blockRoot, 0, !cs.roots.isEmpty⟩
  -- (fuel: the iterator's index grows in every round and the loop stops at `to`)
  andThen (upgradeRoots C (2 * (u.start + u.length)) (2 * (u.start + u.length) + 2) st0) fun st =>
    match st.cs.roots.getLast? with
    | none => .error .err
    | some last =>
      -- (when the first phase stops on a mismatch the Rust has already moved the iterator to the sibling)
      let r := extraSiblings C (u.additionalNodes.length + 1) st.cs (Iter.new last.index) u.additionalNodes
      andThen (extraRest C r.1 r.2.1 r.2.2) fun x => checkSignature C fork u pk st.q.extra.isNone x.1

/-- `verify_proof` -/
def verifyProof (C : Crypto) (t : Tree) (f : File) (p : Proof) (pk : Bytes) : R Changeset :=
  match verifyTree C p.block p.hash p.seek t.changeset with
  | .error e => .error e
  | .ok (root, cs) =>
    let afterUp : R (Option Node × Changeset) := match p.upgrade with
      | some u =>
        (match verifyUpgrade C p.fork u root pk cs with
         | .error e => .error e
         | .ok (consumed, cs') => .ok (if consumed then none else root, cs'))
      | none => .ok (root, cs)
    match afterUp with
    | .error e => .error e
    | .ok (unverified, cs') =>
      match unverified with
      | none => .ok cs'
      | some r =>
        match t.requiredNode f r.index with
        | .error e => .error e
        | .ok v => if v.hash ≠ r.hash then .error .err else .ok cs'

/-- `byte_offset_in_changeset` -/
def byteOffsetInChangeset (t : Tree) (f : File) (i : Nat) (cs : Changeset) : R Nat :=
  if t.length = i then .ok t.byteLength else
  let index := 2 * i
  let rec scan : List Node → Iter → Nat → Bool → Option Node → (Nat × Option Node)
    | [], _, off, _, par => (off, par)
    | n :: ns, it, off, isRight, par =>
      if n.index = it.index then
        let off' := match isRight, par with
          | true, some p => off + (n.length - p.length)
          | _, _ => off
        scan ns it.parent off' it.isRight (some n)
      else scan ns it off isRight par
  let (treeOffset, par) := scan cs.nodes (Iter.new index) 0 false none
  match par with
  | some p =>
    (match cs.roots.findIdx? (fun r => r.index = p.index) with
     | some r => .ok (treeOffset + ((cs.roots.take r).map (·.length)).sum)
     | none =>
       match t.byteOffsetFromNodes f p.index with
       | .error e => .error e
       | .ok off => .ok (off + treeOffset))
  | none =>
    match t.byteOffsetFromNodes f index with
    | .error e => .error e
    | .ok off => .ok (off + treeOffset)

end Tree

namespace Core

/-- `create_proof`: `.ok none` when the requested block is not held (e.g. cleared) -/
def createProof (c : Core) (d : Disk) (block hash : Option RequestBlock) (seek : Option RequestSeek)
    (upgrade : Option RequestUpgrade) : Step (Option Proof) :=
  match c.tree.createValuelessProof d.tree block hash seek upgrade with
  | .error e => { core := c, result := .error e }
  | .ok vp =>
    match vp.block with
    | none => { core := c, result := .ok (some ⟨vp.fork, none, vp.hash, vp.seek, vp.upgrade⟩) }
    | some b =>
      let g := c.getBlock d b.index
      match g.result with
      | .error e => { core := c, result := .error e, events := g.events }
      | .ok none => { core := c, result := .ok none, events := g.events }
      | .ok (some v) =>
        { core := c, result := .ok (some ⟨vp.fork, some ⟨b.index, v, b.nodes⟩, vp.hash, vp.seek, vp.upgrade⟩) }

/-- where the block of an accepted proof is written: data-store write and bitfield update -/
def dataStep (c : Core) (d : Disk) (p : Proof) (cs : Changeset) : R (List SOp × Option BitfieldUpdate) :=
  match p.block with
  | some b =>
    (match c.tree.byteOffsetInChangeset d.tree b.index cs with
     | .error e => .error e
     | .ok off => .ok ([.write .data off b.value], some ⟨false, b.index, 1⟩))
  | none => .ok ([], none)

/-- events of an applied proof: upgrade iff it carried one, then have(index, 1) iff it carried a block -/
def appliedEvents (p : Proof) (bu : Option BitfieldUpdate) : List Event :=
  (if p.upgrade.isSome then [.upgrade] else []) ++ (match bu with | some u => [.have u.start u.length] | none => [])

/-- last step of an accepted proof, given the outcome of the tree commit -/
def finishApply (c : Core) (ol : Oplog.State) (header : Header) (bf : Bitfield) (j01 : List SOp) (p : Proof)
    (bu : Option BitfieldUpdate) : R Tree → Step Bool
  | .error e => { core := { c with oplog := ol, header := header, bitfield := bf }, result := .error e, journal := j01 }
  | .ok tree =>
    let c1 := { c with oplog := ol, header := header, bitfield := bf, tree := tree }
    let (c2, j2) := c1.maybeFlush
    { core := c2, result := .ok true, journal := j01 ++ j2, events := appliedEvents p bu }

/-- the commit of a verified, commitable changeset: oplog entry, bitfield, tree, periodic flush -/
def applyVerified (c : Core) (p : Proof) (cs : Changeset) (j0 : List SOp) (bu : Option BitfieldUpdate) : Step Bool :=
  let (entry, header) := entryOf cs bu c.header
  let (ol, j1) := Oplog.appendEntry c.oplog entry
  let (bf, header) := match bu with
    | some u => let bf := c.bitfield.setRange u.start u.length true; (bf, updateContiguous header bf u)
    | none => (c.bitfield, header)
  finishApply c ol header bf (j0 ++ j1) p bu (c.tree.commit cs)

/-- the oplog encoder copies every node hash into a 32-byte slot and fails on any other length (`as_array::<32>` in
    `impl CompactEncoding for Node`); the wire decoder only produces 32-byte hashes, the in-process API accepts any -/
def encodable (cs : Changeset) : Bool := cs.nodes.all (fun n => n.hash.length == 32)

/-- `verify_and_apply_proof` -/
def verifyAndApply (C : Crypto) (c : Core) (d : Disk) (p : Proof) : Step Bool :=
  if p.fork ≠ c.tree.fork then { core := c, result := .ok false } else
  match c.tree.verifyProof C d.tree p c.publicKey with
  | .error e => { core := c, result := .error e }
  | .ok cs =>
    if !c.tree.commitable cs then { core := c, result := .ok false } else
    match dataStep c d p cs with
    | .error e => { core := c, result := .error e }
    | .ok (j0, bu) =>
      -- the block's bytes are written before the entry is encoded
      if encodable cs then applyVerified c p cs j0 bu else { core := c, result := .error .err, journal := j0 }

end Core
end HC
