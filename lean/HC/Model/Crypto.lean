import HC.Base
import HC.Crypto.Blake2b
import HC.Crypto.Ed25519
import HC.Crypto.Crc32
import HC.Spec.Consts
/-!
The cryptographic interface of the model.  All model functions take a `Crypto` record; theorems
quantify over every record (with explicit hypotheses where needed), the driver instantiates
`Crypto.real`, written from the Hypercore-10 scheme: BLAKE2b-256 over
`type ‖ LE64 size ‖ …`, Ed25519 (RFC 8032) over `namespace ‖ roots hash ‖ LE64 length ‖ LE64 fork`.
-/
namespace HC

structure Crypto where
  /-- hash of a block's data -/
  leaf : Bytes → Bytes
  /-- hash of a parent: summed size, left hash, right hash -/
  parent : Nat → Bytes → Bytes → Bytes
  /-- hash of a root list: (hash, flat index, size) per root -/
  tree : List (Bytes × Nat × Nat) → Bytes
  publicKey : Bytes → Bytes
  sign : Bytes → Bytes → Bytes
  verify : Bytes → Bytes → Bytes → Bool

def le8 (n : Nat) : Bytes := leBytes n 8

def treeNamespace : Bytes := Spec.treeNamespace.map UInt8.ofNat

/-- what is signed: namespace ‖ hash of the roots ‖ length ‖ fork -/
def signable (rootHash : Bytes) (length fork : Nat) : Bytes :=
  treeNamespace ++ rootHash ++ le8 length ++ le8 fork

def Crypto.real : Crypto where
  leaf d := Blake2b.hash256 ([UInt8.ofNat Spec.leafType] ++ le8 d.length ++ d)
  parent s l r := Blake2b.hash256 ([UInt8.ofNat Spec.parentType] ++ le8 s ++ l ++ r)
  tree roots := Blake2b.hash256 ([UInt8.ofNat Spec.rootType] ++ roots.flatMap fun (h, i, s) => h ++ le8 i ++ le8 s)
  publicKey seed := Ed25519.publicKey seed
  sign seed msg := Ed25519.sign seed msg
  verify pk msg sig := Ed25519.verify pk msg sig

/-- FNV-1a 64 — only used to abbreviate long byte strings in the line protocol -/
def fnv64 (bs : Bytes) : UInt64 :=
  bs.foldl (fun h b => (h ^^^ b.toUInt64) * 0x100000001b3) 0xcbf29ce484222325

def fnv64Str (s : String) : UInt64 := fnv64 s.toUTF8.toList

def hex16 (x : UInt64) : String :=
  hex (leBytes x.toNat 8).reverse

/-- canonical rendering of a byte string: "-" if empty, hex if short, "#len:fnv64" otherwise -/
def showBytes (b : Bytes) : String :=
  if b.length ≤ 48 then hexOrDash b else s!"#{b.length}:{hex16 (fnv64 b)}"

end HC
