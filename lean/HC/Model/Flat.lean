/-!
Port of the `flat-tree` 6.0.0 functions and `Iterator` methods that hypercore calls, on `Nat`.
(The crate is a dependency: modelled, and compared with the real crate through the
correspondence run.  `u64` wrap-around is not represented; the properties bound peer-supplied
numbers by 2^40.)
-/
namespace HC.Flat

/-- number of trailing one bits -/
def depthAux : Nat → Nat → Nat
  | 0, _ => 0
  | fuel+1, i => if i % 2 = 1 then depthAux fuel (i / 2) + 1 else 0

def depth (i : Nat) : Nat := depthAux 64 i

def index (depth offset : Nat) : Nat := offset * 2 ^ (depth + 1) + (2 ^ depth - 1)

def offset (i : Nat) : Nat := if i % 2 = 0 then i / 2 else i / 2 ^ (depth i + 1)

def parent (i : Nat) : Nat := index (depth i + 1) (offset i / 2)

def leftSpan (i : Nat) : Nat := if depth i = 0 then i else offset i * 2 ^ (depth i + 1)
def rightSpan (i : Nat) : Nat := if depth i = 0 then i else (offset i + 1) * 2 ^ (depth i + 1) - 2

/-- `flat_tree::full_roots(2 * n)`: the roots of a tree with `n` leaves, left to right -/
def fullRootsAux : Nat → Nat → Nat → List Nat
  | 0, _, _ => []
  | fuel+1, tmp, off =>
    if tmp = 0 then []
    else
      let factor := 2 ^ (Nat.log2 tmp)
      (off + factor - 1) :: fullRootsAux fuel (tmp - factor) (off + 2 * factor)

def fullRoots (head : Nat) : List Nat := fullRootsAux 65 (head / 2) 0

structure Iter where
  index : Nat
  offset : Nat
  factor : Nat
deriving Repr, DecidableEq, Inhabited

namespace Iter

def new (i : Nat) : Iter :=
  if i % 2 = 1 then ⟨i, Flat.offset i, 2 ^ (depth i + 1)⟩ else ⟨i, i / 2, 2⟩

def seek (_ : Iter) (i : Nat) : Iter := new i

def isLeft (it : Iter) : Bool := it.offset % 2 = 0
def isRight (it : Iter) : Bool := it.offset % 2 = 1

def contains (it : Iter) (i : Nat) : Bool :=
  if i > it.index then i < it.index + it.factor / 2
  else if i < it.index then
    let comp := it.factor / 2
    it.index < comp || i > it.index - comp
  else true

def next (it : Iter) : Iter := { it with offset := it.offset + 1, index := it.index + it.factor }

def prev (it : Iter) : Iter :=
  if it.offset = 0 then it else { it with offset := it.offset - 1, index := it.index - it.factor }

def sibling (it : Iter) : Iter := if it.isLeft then it.next else it.prev

def parent (it : Iter) : Iter :=
  if it.offset % 2 = 1 then
    ⟨it.index - it.factor / 2, (it.offset - 1) / 2, it.factor * 2⟩
  else
    ⟨it.index + it.factor / 2, it.offset / 2, it.factor * 2⟩

def leftChild (it : Iter) : Iter :=
  if it.factor = 2 then it
  else
    let f := it.factor / 2
    ⟨it.index - f / 2, it.offset * 2, f⟩

def rightChild (it : Iter) : Iter :=
  if it.factor = 2 then it
  else
    let f := it.factor / 2
    ⟨it.index + f / 2, 2 * it.offset + 1, f⟩

def nextTree (it : Iter) : Iter :=
  let i := it.index + it.factor / 2 + 1
  ⟨i, i / 2, 2⟩

/-- `full_root(index)`: returns whether a full root starts here below `index`, and the moved iterator -/
def fullRootLoop : Nat → Iter → Nat → Iter
  | 0, it, _ => it
  | fuel+1, it, i =>
    if i > it.index + it.factor + it.factor / 2 then
      fullRootLoop fuel ⟨it.index + it.factor / 2, it.offset / 2, it.factor * 2⟩ i
    else it

def fullRoot (it : Iter) (i : Nat) : Bool × Iter :=
  if i ≤ it.index || it.index % 2 = 1 then (false, it)
  else (true, fullRootLoop 70 it i)

end Iter
end HC.Flat
