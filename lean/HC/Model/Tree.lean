import HC.Model.Codec
import HC.Model.Crypto
import HC.Model.Flat
import HC.Model.Oplog
import Std.Data.HashMap
/-!
Model of `src/tree/merkle_tree_changeset.rs` and the log-side parts of `src/tree/merkle_tree.rs`
(open, changeset, commit, flush, byte offsets, truncate as used by replay).  The
`Either<instructions, value>` read protocol is not modelled: the model reads the node store directly.
-/
namespace HC
open Codec Flat

def Codec.Node.blank (n : Node) : Bool := n.hash.all (· == 0)

def nodeBytes (n : Node) : Bytes := le8 n.length ++ n.hash

def nodeOfBytes (index : Nat) (bs : Bytes) : Node := ⟨index, leVal (bs.take 8), bs.drop 8⟩

structure Changeset where
  length : Nat
  ancestors : Nat
  byteLength : Nat
  batchLength : Nat := 0
  fork : Nat
  roots : List Node
  /-- the changeset's nodes, newest first (`nodes` gives them in the order the Rust pushes them) -/
  rnodes : List Node := []
  hash : Option Bytes := none
  signature : Option Bytes := none
  upgraded : Bool := false
  origLength : Nat
  origFork : Nat
deriving Inhabited

def Changeset.nodes (cs : Changeset) : List Node := cs.rnodes.reverse

structure Tree where
  roots : List Node := []
  length : Nat := 0
  byteLength : Nat := 0
  fork : Nat := 0
  signature : Option Bytes := none
  unflushed : Std.HashMap Nat Node := {}
deriving Inhabited

namespace Tree

def changeset (t : Tree) : Changeset :=
  { length := t.length, ancestors := t.length, byteLength := t.byteLength, fork := t.fork, roots := t.roots,
    origLength := t.length, origFork := t.fork }

/-- `Hash::parent`: children ordered by index -/
def parentHash (C : Crypto) (a b : Node) : Bytes :=
  if a.index ≤ b.index then C.parent (a.length + b.length) a.hash b.hash
  else C.parent (a.length + b.length) b.hash a.hash

def rootsHash (C : Crypto) (roots : List Node) : Bytes :=
  C.tree (roots.map fun n => (n.hash, n.index, n.length))

/-- the merge loop of `append_root`; `roots` and `nodes` are kept reversed (last one first) -/
def mergeLoop (C : Crypto) : Nat → List Node → List Node → Iter → List Node × List Node × Iter
  | 0, rroots, nodes, it => (rroots, nodes, it)
  | fuel+1, a :: b :: rest, nodes, it =>
    let sib := it.sibling
    if sib.index ≠ b.index then (a :: b :: rest, nodes, sib.sibling)
    else
      let par := sib.parent
      let n : Node := ⟨par.index, a.length + b.length, parentHash C a b⟩
      mergeLoop C fuel (n :: rest) (n :: nodes) par
  | _, rroots, nodes, it => (rroots, nodes, it)

def appendRoot (C : Crypto) (cs : Changeset) (node : Node) (it : Iter) : Changeset × Iter :=
  let (rroots, rnodes, it') := mergeLoop C (cs.roots.length + 1) (node :: cs.roots.reverse) (node :: cs.rnodes) it
  ({ cs with upgraded := true, length := cs.length + it.factor / 2, byteLength := cs.byteLength + node.length,
             roots := rroots.reverse, rnodes := rnodes }, it')

def append (C : Crypto) (cs : Changeset) (data : Bytes) : Changeset :=
  let head := cs.length * 2
  let cs' := (appendRoot C cs ⟨head, data.length, C.leaf data⟩ (Iter.new head)).1
  { cs' with batchLength := cs'.batchLength + 1 }

def hashAndSign (C : Crypto) (cs : Changeset) (seed : Bytes) : Changeset :=
  let h := rootsHash C cs.roots
  { cs with hash := some h, signature := some (C.sign seed (signable h cs.length cs.fork)) }

def commitable (t : Tree) (cs : Changeset) : Bool :=
  cs.origFork == t.fork && (if cs.upgraded then cs.origLength == t.length else cs.origLength ≤ t.length)

/-- `commit`.  Truncating commits (`ancestors < original length`) are not reachable through the
    public API once stale entries are ignored; the model reports them as a panic-class result so a
    divergence would show up in the correspondence. -/
def commit (t : Tree) (cs : Changeset) : R Tree :=
  if !t.commitable cs then .error .err
  else if cs.upgraded && cs.ancestors < cs.origLength then .error .panic
  else
    let t1 := if cs.upgraded then
        { t with roots := cs.roots, length := cs.length, byteLength := cs.byteLength, fork := cs.fork, signature := cs.signature }
      else t
    .ok { t1 with unflushed := cs.nodes.foldl (fun m n => m.insert n.index n) t1.unflushed }

def addNode (t : Tree) (n : Node) : Tree := { t with unflushed := t.unflushed.insert n.index n }

/-- `flush_nodes` (the order of the real writes is that of `IntMap::drain`; both sides sort) -/
def flush (t : Tree) : Tree × List SOp :=
  let ns := t.unflushed.toList.map (·.2)
  let sorted := ns.mergeSort (fun a b => a.index ≤ b.index)
  ({ t with unflushed := {} }, sorted.map fun n => .write .tree (n.index * Spec.nodeSize) (nodeBytes n))

/-- node lookup: unflushed first, then the store; `none` = missing or blank -/
def node? (t : Tree) (f : File) (i : Nat) : Option Node :=
  match t.unflushed[i]? with
  | some n => if n.blank then none else some n
  | none =>
    match f.read (i * Spec.nodeSize) Spec.nodeSize with
    | none => none
    | some bs => let n := nodeOfBytes i bs; if n.blank then none else some n

def requiredNode (t : Tree) (f : File) (i : Nat) : R Node :=
  match t.node? f i with
  | some n => .ok n
  | none => .error .err

/-- descent of `byte_offset_from_nodes` inside one root -/
def offsetDescend (t : Tree) (f : File) (target : Nat) : Nat → Iter → Nat → R Nat
  | 0, _, _ => .error .panic
  | fuel+1, it, acc =>
    if it.index = target then .ok acc
    else if target < it.index then offsetDescend t f target fuel it.leftChild acc
    else
      let l := it.leftChild
      match t.requiredNode f l.index with
      | .error e => .error e
      | .ok n => offsetDescend t f target fuel l.sibling (acc + n.length)

def byteOffsetFromNodes (t : Tree) (f : File) (index : Nat) : R Nat :=
  let index := if index % 2 = 1 then leftSpan index else index
  let rec go : List Node → Nat → Nat → R Nat
    | [], _, _ => .error .err
    | r :: rs, head, acc =>
      let head' := head + 2 * ((r.index - head) + 1)
      if index ≥ head' then go rs head' (acc + r.length)
      else offsetDescend t f index 70 (Iter.new r.index) acc
  go t.roots 0 0

def validateIndex (t : Tree) (i : Nat) : R Nat :=
  let index := 2 * i
  if index ≥ 2 * t.length then .error .err else .ok index

def byteOffset (t : Tree) (f : File) (i : Nat) : R Nat :=
  match t.validateIndex i with
  | .error e => .error e
  | .ok index => t.byteOffsetFromNodes f index

/-- `byte_range`: (offset, length) -/
def byteRange (t : Tree) (f : File) (i : Nat) : R (Nat × Nat) :=
  match t.validateIndex i with
  | .error e => .error e
  | .ok index =>
    match t.requiredNode f index with
    | .error e => .error e
    | .ok n =>
      match t.byteOffsetFromNodes f index with
      | .error e => .error e
      | .ok off => .ok (off, n.length)

/-- `MerkleTree::open` -/
def openTree (ht : Oplog.HeaderTree) (f : File) : R Tree :=
  let idx := fullRoots (ht.length * 2)
  let rec load : List Nat → R (List Node)
    | [] => .ok []
    | i :: is =>
      match f.read (i * Spec.nodeSize) Spec.nodeSize with
      | none => .error .err
      | some bs => match load is with
        | .error e => .error e
        | .ok ns => .ok (nodeOfBytes i bs :: ns)
  match load idx with
  | .error e => .error e
  | .ok roots =>
    let len := (roots.foldl (fun l n => l + 2 * ((n.index - l) + 1)) 0) / 2
    if !ht.signature.isEmpty && ht.signature.length ≠ 64 then .error .err
    else .ok { roots := roots, length := len, byteLength := (roots.map (·.length)).sum, fork := ht.fork,
               signature := if ht.signature.isEmpty then none else some ht.signature }

/-- `truncate` as replay uses it: the roots of `length`, reusing the current ones where they coincide -/
def truncate (t : Tree) (f : File) (length fork : Nat) : R Changeset :=
  let full := fullRoots (length * 2)
  let rec go : List Nat → Nat → List Node → R (List Node)
    | [], _, acc => .ok acc
    | r :: rs, i, acc =>
      if i < acc.length ∧ (acc.getD i default).index = r then go rs (i + 1) acc
      else
        match t.requiredNode f r with
        | .error e => .error e
        | .ok n => go rs (i + 1) (acc.take i ++ [n])
  match go full 0 t.roots with
  | .error e => .error e
  | .ok roots =>
    let roots := roots.take full.length
    .ok { t.changeset with roots := roots, fork := fork, length := length, ancestors := length,
                           byteLength := (roots.map (·.length)).sum, upgraded := true }

end Tree
end HC
