import HC.Model.Storage
import HC.Spec.Consts
/-!
Model of `src/bitfield/{dynamic,fixed}.rs`.  The page/word/mask arithmetic of the Rust is
modelled as "bit `i` lives in byte `i / 8`, bit `i % 8` of the file; page `p` is bytes
`[4096 p, 4096 (p+1))`"; a page is marked dirty exactly when a range update changes one of its bits.
-/
namespace HC

structure Bitfield where
  bits : Array Bool := #[]
  /-- dirty pages in the order they became dirty -/
  dirty : List Nat := []
deriving Inhabited

namespace Bitfield

def get (b : Bitfield) (i : Nat) : Bool := b.bits.getD i false

/-- does `[start, start+len)` contain a bit different from `v`? -/
def rangeDiffers (bits : Array Bool) (v : Bool) : Nat → Nat → Bool
  | _, 0 => false
  | start, n+1 => (bits.getD start false != v) || rangeDiffers bits v (start + 1) n

def setBits (bits : Array Bool) (v : Bool) : Nat → Nat → Array Bool
  | _, 0 => bits
  | start, n+1 => setBits (bits.setIfInBounds start v) v (start + 1) n

def grow (bits : Array Bool) (n : Nat) : Array Bool :=
  if bits.size < n then bits ++ Array.replicate (n - bits.size) false else bits

/-- pages touched by `[start, start+len)` whose content changes, in increasing order -/
def changedPages (bits : Array Bool) (v : Bool) (start len : Nat) : List Nat :=
  if len = 0 then [] else
  let first := start / Spec.pageBits
  let last := (start + len - 1) / Spec.pageBits
  (List.range (last - first + 1)).filterMap fun k =>
    let p := first + k
    let lo := max start (p * Spec.pageBits)
    let hi := min (start + len) ((p + 1) * Spec.pageBits)
    if rangeDiffers bits v lo (hi - lo) then some p else none

def setRange (b : Bitfield) (start len : Nat) (v : Bool) : Bitfield :=
  let changed := changedPages b.bits v start len
  let newDirty := changed.filter fun p => !b.dirty.contains p
  let bits := if v then grow b.bits (start + len) else b.bits
  { bits := setBits bits v start (min len (bits.size - start)), dirty := b.dirty ++ newDirty }

/-- smallest set index `≥ pos` -/
def indexOfTrue (b : Bitfield) (pos : Nat) : Option Nat :=
  (List.range (b.bits.size - pos)).findSome? fun k => if b.bits.getD (pos + k) false then some (pos + k) else none

/-- largest set index `≤ pos` -/
def lastIndexOfTrue (b : Bitfield) (pos : Nat) : Option Nat :=
  let top := min pos (b.bits.size - 1)
  if b.bits.size = 0 then none else
  (List.range (top + 1)).findSome? fun k => if b.bits.getD (top - k) false then some (top - k) else none

def bitsToByte (bits : Array Bool) (base : Nat) : UInt8 :=
  UInt8.ofNat ((List.range 8).foldl (fun acc j => acc + (if bits.getD (base + j) false then 2 ^ j else 0)) 0)

def pageBytes (b : Bitfield) (p : Nat) : Bytes :=
  (List.range Spec.pageBytes).map fun k => bitsToByte b.bits ((p * Spec.pageBytes + k) * 8)

/-- `flush`: one write per dirty page, in the order they became dirty -/
def flush (b : Bitfield) : Bitfield × List SOp :=
  ({ b with dirty := [] }, b.dirty.map fun p => .write .bitfield (p * Spec.pageBytes) (b.pageBytes p))

/-- `open`: reads a multiple of four bytes of the store -/
def ofFile (f : File) : Bitfield :=
  let len := f.size - f.size % 4
  let bits := Array.ofFn (n := len * 8) fun i => decide ((f.data.getD (i.val / 8) 0).toNat / 2 ^ (i.val % 8) % 2 = 1)
  { bits := bits, dirty := [] }

end Bitfield
end HC
