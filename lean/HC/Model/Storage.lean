import HC.Base
/-!
Model of the `RandomAccess` contract as implemented by `random-access-memory` /
`random-access-disk` and by the harness's instrumented backend: a flat file of bytes.

* `write off bs`  zero-extends the file to `off + |bs|` and overwrites;
* `read off len`  fails (out of bounds) if `off + len > size`;
* `del off len`   no-op on `len = 0`; truncates to `off` if the range reaches the end; else zeroes;
* `truncate n`    shrinks, or zero-extends.
-/
namespace HC

structure File where
  data : Array UInt8
deriving Inhabited

namespace File

def empty : File := ⟨#[]⟩
def size (f : File) : Nat := f.data.size
def ofList (l : Bytes) : File := ⟨l.toArray⟩
def toList (f : File) : Bytes := f.data.toList

def read (f : File) (off len : Nat) : Option Bytes :=
  if off + len > f.size then none else some ((f.data.extract off (off + len)).toList)

def pushZeros : Array UInt8 → Nat → Array UInt8
  | a, 0 => a
  | a, k+1 => pushZeros (a.push 0) k

/-- zero-extend to at least `n` bytes (in place when the array is not shared) -/
def extend (a : Array UInt8) (n : Nat) : Array UInt8 := pushZeros a (n - a.size)

def writeFrom (a : Array UInt8) : Nat → Bytes → Array UInt8
  | _, [] => a
  | off, b :: bs => writeFrom (a.setIfInBounds off b) (off + 1) bs

def write (f : File) (off : Nat) (bs : Bytes) : File :=
  match f with
  | ⟨a⟩ => ⟨writeFrom (extend a (off + bs.length)) off bs⟩

def truncate (f : File) (n : Nat) : File :=
  if n ≤ f.size then ⟨f.data.extract 0 n⟩ else ⟨extend f.data n⟩

def zeroRange (a : Array UInt8) : Nat → Nat → Array UInt8
  | _, 0 => a
  | off, n+1 => zeroRange (a.setIfInBounds off 0) (off + 1) n

/-- `none` is the out-of-bounds error of the backends (`offset > length`). -/
def del (f : File) (off len : Nat) : Option File :=
  if off > f.size then none
  else if len = 0 then some f
  else if off + len ≥ f.size then some (f.truncate off)
  else some ⟨zeroRange f.data off len⟩

end File

/-- the four stores -/
inductive Store | tree | data | bitfield | oplog
deriving DecidableEq, Repr, Inhabited

def Store.ch : Store → String
  | .tree => "T" | .data => "D" | .bitfield => "B" | .oplog => "O"

/-- a mutating storage operation, as journalled by the instrumented backend -/
inductive SOp
  | write (s : Store) (off : Nat) (bs : Bytes)
  | del (s : Store) (off len : Nat)
  | trunc (s : Store) (len : Nat)
deriving Inhabited

structure Disk where
  tree : File := File.empty
  data : File := File.empty
  bitfield : File := File.empty
  oplog : File := File.empty
deriving Inhabited

def Disk.get (d : Disk) : Store → File
  | .tree => d.tree | .data => d.data | .bitfield => d.bitfield | .oplog => d.oplog

def Disk.set (d : Disk) (s : Store) (f : File) : Disk :=
  match s with
  | .tree => { d with tree := f } | .data => { d with data := f }
  | .bitfield => { d with bitfield := f } | .oplog => { d with oplog := f }

/-- effect of one journalled operation on the disk (what the backend did) -/
def Disk.apply (d : Disk) (op : SOp) : Disk :=
  match d, op with
  -- (written store by store so that the file is taken out of the record before it is updated:
  --  the update is then in place whenever the disk value is not shared)
  | ⟨t, da, b, o⟩, .write .tree off bs => ⟨t.write off bs, da, b, o⟩
  | ⟨t, da, b, o⟩, .write .data off bs => ⟨t, da.write off bs, b, o⟩
  | ⟨t, da, b, o⟩, .write .bitfield off bs => ⟨t, da, b.write off bs, o⟩
  | ⟨t, da, b, o⟩, .write .oplog off bs => ⟨t, da, b, o.write off bs⟩
  | d, .del s off len => match (d.get s).del off len with
    | some f => d.set s f
    | none => d
  | d, .trunc s len => d.set s ((d.get s).truncate len)

def Disk.applyAll (d : Disk) (ops : List SOp) : Disk := ops.foldl Disk.apply d

end HC
