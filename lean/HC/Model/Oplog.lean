import HC.Model.Codec
import HC.Model.Crypto
import HC.Model.Storage
/-!
Model of `src/oplog/{mod,entry,header}.rs`: header and entry encodings, the checksummed leader,
the two-slot header rotation, `Oplog::open`.
-/
namespace HC

inductive Fail | err | panic
deriving DecidableEq, Repr, Inhabited

abbrev R (α : Type) := Except Fail α

namespace Oplog
open Codec

structure HeaderTree where
  fork : Nat := 0
  length : Nat := 0
  rootHash : Bytes := []
  signature : Bytes := []
deriving DecidableEq, Repr, Inhabited

structure Header where
  key : Bytes
  /-- manifest.signer.{namespace, public_key}; version/hash/type/signature ids are constants -/
  manifestNamespace : Bytes
  manifestKey : Bytes
  publicKey : Bytes
  /-- the 32-byte Ed25519 seed -/
  secret : Option Bytes
  userData : List Bytes := []
  tree : HeaderTree := {}
  reorgs : List Bytes := []
  contiguous : Nat := 0
deriving DecidableEq, Repr, Inhabited

def defaultNamespace : Bytes :=
  [0x41, 0x44, 0xEE, 0xA5, 0x31, 0xE4, 0x83, 0xD5, 0x4E, 0x0C, 0x14, 0xF4, 0xCA, 0x68, 0xE0, 0x64,
   0x4F, 0x35, 0x53, 0x43, 0xFF, 0x6F, 0xCB, 0x0F, 0x00, 0x52, 0x00, 0xE1, 0x2C, 0xD7, 0x47, 0xCB]

def Header.new (pk : Bytes) (secret : Option Bytes) : Header :=
  { key := pk, manifestNamespace := defaultNamespace, manifestKey := pk, publicKey := pk, secret := secret }

/-! ### header encoding -/

def encStrings (l : List Bytes) : Bytes := encArr encBuf l
def decStrings (bs : Bytes) : Option (List Bytes × Bytes) := decArr decBuf bs

def encHeaderTree (t : HeaderTree) : Bytes :=
  encUint t.fork ++ encUint t.length ++ encBuf t.rootHash ++ encBuf t.signature

def decHeaderTree (bs : Bytes) : Option (HeaderTree × Bytes) :=
  match decUint bs with
  | none => none
  | some (fork, r1) =>
    match decUint r1 with
    | none => none
    | some (length, r2) =>
      match decBuf r2 with
      | none => none
      | some (rh, r3) =>
        match decBuf r3 with
        | none => none
        | some (sig, r4) => some (⟨fork, length, rh, sig⟩, r4)

def encKeyPair (pk : Bytes) (secret : Option Bytes) : Bytes :=
  encBuf pk ++ match secret with
    | some sk => encBuf (sk ++ pk)
    | none => [0]

def decKeyPair (bs : Bytes) : Option ((Bytes × Option Bytes) × Bytes) :=
  match decUint bs with
  | none => none
  | some (n, r1) =>
    if n ≠ 32 then none else
    match takeN 32 r1 with
    | none => none
    | some (pk, r2) =>
      match decUint r2 with
      | none => none
      | some (m, r3) =>
        if m = 0 then some ((pk, none), r3)
        else if m = 64 then
          match takeN 64 r3 with
          | none => none
          | some (full, r4) => some ((pk, some (full.take 32)), r4)
        else none

def encManifest (ns pk : Bytes) : Bytes := [0, 0, 1, 0] ++ ns ++ pk

/-- `Manifest::decode` panics on an unknown version and errors on unknown hash/type/signature ids -/
def decManifest (bs : Bytes) : R ((Bytes × Bytes) × Bytes) :=
  match bs with
  | v :: h :: t :: s :: rest =>
    if v ≠ 0 then .error .panic
    else if h ≠ 0 ∨ t ≠ 1 ∨ s ≠ 0 then .error .err
    else match takeN 32 rest with
      | none => .error .err
      | some (ns, r1) =>
        match takeN 32 r1 with
        | none => .error .err
        | some (pk, r2) => .ok ((ns, pk), r2)
  | [v] => if v ≠ 0 then .error .panic else .error .err
  | [v, _] => if v ≠ 0 then .error .panic else .error .err
  | [v, h, _] => if v ≠ 0 then .error .panic else if h ≠ 0 then .error .err else .error .err
  | [] => .error .err

def versionFlags : Bytes := Spec.headerVersionFlags.map UInt8.ofNat

def encHeader (h : Header) : Bytes :=
  versionFlags ++ h.key ++ encManifest h.manifestNamespace h.manifestKey ++ encKeyPair h.publicKey h.secret
    ++ encStrings h.userData ++ encHeaderTree h.tree ++ encStrings h.reorgs ++ encUint h.contiguous

def ofOpt {α : Type} : Option α → R α
  | some a => .ok a
  | none => .error .err

def decHeader (bs : Bytes) : R (Header × Bytes) :=
  match takeN 2 bs with
  | none => .error .err
  | some (_, r0) =>
    match takeN 32 r0 with
    | none => .error .err
    | some (key, r1) =>
      match decManifest r1 with
      | .error e => .error e
      | .ok ((ns, mk), r2) =>
        match decKeyPair r2 with
        | none => .error .err
        | some ((pk, sk), r3) =>
          match decStrings r3 with
          | none => .error .err
          | some (ud, r4) =>
            match decHeaderTree r4 with
            | none => .error .err
            | some (tree, r5) =>
              match decStrings r5 with
              | none => .error .err
              | some (reorgs, r6) =>
                match decUint r6 with
                | none => .error .err
                | some (c, r7) =>
                  .ok ({ key := key, manifestNamespace := ns, manifestKey := mk, publicKey := pk, secret := sk,
                         userData := ud, tree := tree, reorgs := reorgs, contiguous := c }, r7)

/-! ### entries -/

structure TreeUpgrade where
  fork : Nat
  ancestors : Nat
  length : Nat
  signature : Bytes
deriving DecidableEq, Repr, Inhabited

structure BitfieldUpdate where
  drop : Bool
  start : Nat
  length : Nat
deriving DecidableEq, Repr, Inhabited

structure Entry where
  userData : List Bytes := []
  treeNodes : List Node := []
  treeUpgrade : Option TreeUpgrade := none
  bitfield : Option BitfieldUpdate := none
deriving DecidableEq, Repr, Inhabited

def flagUserData : Nat := Spec.entryFlags.getD 0 0
def flagTreeNodes : Nat := Spec.entryFlags.getD 1 0
def flagTreeUpgrade : Nat := Spec.entryFlags.getD 2 0
def flagBitfield : Nat := Spec.entryFlags.getD 3 0

def encTreeUpgrade (u : TreeUpgrade) : Bytes :=
  encUint u.fork ++ encUint u.ancestors ++ encUint u.length ++ encBuf u.signature

def decTreeUpgrade (bs : Bytes) : Option (TreeUpgrade × Bytes) :=
  match decUint bs with
  | none => none
  | some (f, r1) =>
    match decUint r1 with
    | none => none
    | some (a, r2) =>
      match decUint r2 with
      | none => none
      | some (l, r3) =>
        match decBuf r3 with
        | none => none
        | some (s, r4) => some (⟨f, a, l, s⟩, r4)

def encBitfieldUpdate (b : BitfieldUpdate) : Bytes :=
  [if b.drop then 1 else 0] ++ encUint b.start ++ encUint b.length

def decBitfieldUpdate (bs : Bytes) : Option (BitfieldUpdate × Bytes) :=
  match bs with
  | [] => none
  | f :: r0 =>
    match decUint r0 with
    | none => none
    | some (s, r1) =>
      match decUint r1 with
      | none => none
      | some (l, r2) => some (⟨f.toNat % 2 = 1, s, l⟩, r2)

def entryFlagsOf (e : Entry) : Nat :=
  (if e.userData.isEmpty then 0 else flagUserData) + (if e.treeNodes.isEmpty then 0 else flagTreeNodes)
    + (if e.treeUpgrade.isSome then flagTreeUpgrade else 0) + (if e.bitfield.isSome then flagBitfield else 0)

def encEntry (e : Entry) : Bytes :=
  [UInt8.ofNat (entryFlagsOf e)]
    ++ (if e.userData.isEmpty then [] else encStrings e.userData)
    ++ (if e.treeNodes.isEmpty then [] else encNodes e.treeNodes)
    ++ (match e.treeUpgrade with | some u => encTreeUpgrade u | none => [])
    ++ (match e.bitfield with | some b => encBitfieldUpdate b | none => [])

def hasFlag (flags bit : Nat) : Bool := (flags / bit) % 2 = 1

def decEntry (bs : Bytes) : Option (Entry × Bytes) :=
  match bs with
  | [] => none
  | f :: r0 =>
    let flags := f.toNat
    match (if hasFlag flags flagUserData then decStrings r0 else some ([], r0)) with
    | none => none
    | some (ud, r1) =>
      match (if hasFlag flags flagTreeNodes then decNodes r1 else some ([], r1)) with
      | none => none
      | some (nodes, r2) =>
        match (if hasFlag flags flagTreeUpgrade then (decTreeUpgrade r2).map (fun (u, r) => (some u, r)) else some (none, r2)) with
        | none => none
        | some (up, r3) =>
          match (if hasFlag flags flagBitfield then (decBitfieldUpdate r3).map (fun (b, r) => (some b, r)) else some (none, r3)) with
          | none => none
          | some (bf, r4) => some (⟨ud, nodes, up, bf⟩, r4)

/-! ### the checksummed leader -/

def le4 (n : Nat) : Bytes := leBytes n 4

def lenWord (len : Nat) (headerBit partialBit : Bool) : Nat :=
  len * 4 + (if headerBit then 1 else 0) + (if partialBit then 2 else 0)

/-- leader ‖ payload -/
def frame (payload : Bytes) (headerBit partialBit : Bool) : Bytes :=
  let lw := le4 (lenWord payload.length headerBit partialBit)
  le4 (Crc32.hash (lw ++ payload)).toNat ++ lw ++ payload

structure Leader where
  headerBit : Bool
  partialBit : Bool
  len : Nat
  /-- everything after the 8 leader bytes (not cut at `len`, as in the Rust) -/
  state : Bytes

/-- `validate_leader`: `none` = no valid frame here (short buffer, zero length, length beyond the
    buffer, or — after the repair — a checksum mismatch) -/
def validateLeader (buf : Bytes) : Option Leader :=
  if buf.length < 8 then none
  else
    let stored := leVal (buf.take 4)
    let combined := leVal ((buf.drop 4).take 4)
    let len := combined / 4
    let rest := buf.drop 8
    if len = 0 ∨ rest.length < len then none
    else if (Crc32.hash ((buf.drop 4).take (4 + len))).toNat ≠ stored then none
    else some ⟨combined % 2 = 1, (combined / 2) % 2 = 1, len, rest⟩

/-! ### in-memory oplog bookkeeping -/

structure State where
  bits : Bool × Bool
  entriesLength : Nat := 0
  entriesByteLength : Nat := 0
deriving DecidableEq, Repr, Inhabited

def State.currentBit (s : State) : Bool := Spec.currentBit s.bits.1 s.bits.2

/-- `insert_header`: returns the new bits and the storage operations (header write, truncate) -/
def insertHeader (h : Header) (entriesByteLength : Nat) (bits : Bool × Bool) (clearTraces : Bool) :
    (Bool × Bool) × List SOp :=
  let (second, bit) := Spec.nextSlot bits.1 bits.2
  let newBits := if second then (bits.1, bit) else (bit, bits.2)
  let enc := encHeader h
  let size := if clearTraces then Spec.headerSize else Spec.leaderSize + 2 * enc.length
  let fr := frame enc bit false
  let buf := fr ++ List.replicate (size - fr.length) 0
  (newBits, [.write .oplog (if second then Spec.headerSize else 0) buf,
             .trunc .oplog (Spec.entriesOffset + entriesByteLength)])

/-- `append_entries` for a single entry (the crate never batches) -/
def appendEntry (s : State) (e : Entry) : State × List SOp :=
  let fr := frame (encEntry e) s.currentBit false
  ({ s with entriesLength := s.entriesLength + 1, entriesByteLength := s.entriesByteLength + fr.length },
   [.write .oplog (Spec.entriesOffset + s.entriesByteLength) fr])

/-- `flush` -/
def flush (s : State) (h : Header) (clearTraces : Bool) : State × List SOp :=
  if clearTraces then
    let (b1, ops1) := insertHeader h 0 s.bits true
    let (b2, ops2) := insertHeader h 0 b1 true
    ({ bits := b2, entriesLength := 0, entriesByteLength := 0 }, ops1 ++ ops2.take 1)
  else
    let (b1, ops1) := insertHeader h 0 s.bits false
    ({ bits := b1, entriesLength := 0, entriesByteLength := 0 }, ops1)

structure OpenOutcome where
  state : State
  header : Header
  ops : List SOp
  entries : List Entry

/-- read entries while they are valid and carry the current header bit; returns entries,
    their partial flags and the number of bytes they occupy -/
def readEntries (bit : Bool) : Nat → Bytes → R (List (Entry × Bool) × Nat)
  | 0, _ => .ok ([], 0)
  | fuel+1, buf =>
    match validateLeader buf with
    | none => .ok ([], 0)
    | some l =>
      if l.headerBit ≠ bit then .ok ([], 0)
      else match decEntry l.state with
        | none => .error .err
        | some (e, rest) =>
          match readEntries bit fuel rest with
          | .error x => .error x
          | .ok (es, n) => .ok ((e, l.partialBit) :: es, n + (buf.length - rest.length))

/-- drop trailing partial entries -/
def dropTrailingPartial : List (Entry × Bool) → List (Entry × Bool)
  | [] => []
  | f :: fs => match dropTrailingPartial fs with
    | [] => if f.2 then [] else [f]
    | r => f :: r

/-- second half of `Oplog::open`: the entries after the header slots; whatever follows the entries that
    were read (entries of the previous header not yet truncated away, a torn tail) is cut off -/
def readLog (o : OpenOutcome) (existing : Bytes) : R OpenOutcome :=
  if existing.length > Spec.entriesOffset then
    match readEntries o.state.currentBit (existing.length) (existing.drop Spec.entriesOffset) with
    | .error e => .error e
    | .ok (es, n) =>
      .ok { o with state := { o.state with entriesLength := es.length, entriesByteLength := n },
                   ops := o.ops ++ (if existing.length > Spec.entriesOffset + n then [.trunc .oplog (Spec.entriesOffset + n)] else []),
                   entries := (dropTrailingPartial es).map (·.1) }
  else .ok o

/-- `Oplog::open`.  `keyPair = none` is `open(true)`. -/
def openLog (keyPair : Option (Bytes × Option Bytes)) (existing : Bytes) : R OpenOutcome :=
  let h1 := if existing.length < Spec.headerSize then none else validateLeader (existing.take Spec.headerSize)
  let h2 := if existing.length < 2 * Spec.headerSize then none
            else validateLeader ((existing.drop Spec.headerSize).take Spec.headerSize)
  let start : R OpenOutcome :=
    match h1, h2 with
    | some a, some b =>
      (match decHeader (if a.headerBit == b.headerBit then a.state else b.state) with
       | .error e => .error e
       | .ok (h, _) => .ok ⟨{ bits := (a.headerBit, b.headerBit) }, h, [], []⟩)
    | some a, none =>
      (match decHeader a.state with
       | .error e => .error e
       | .ok (h, _) => .ok ⟨{ bits := (a.headerBit, a.headerBit) }, h, [], []⟩)
    | none, some b =>
      (match decHeader b.state with
       | .error e => .error e
       | .ok (h, _) => .ok ⟨{ bits := (!b.headerBit, b.headerBit) }, h, [], []⟩)
    | none, none =>
      (match keyPair with
       | some (pk, sk) =>
         let h := Header.new pk sk
         let (bits, ops) := insertHeader h 0 Spec.initialBits false
         .ok ⟨{ bits := bits }, h, ops, []⟩
       | none => .error .err)
  match start with
  | .error e => .error e
  | .ok o => readLog o existing

end Oplog
end HC
