import HC.Model.Tree
import HC.Model.Bitfield
/-!
Model of `src/core.rs` (log side): `Hypercore::new` (create / open + replay), `append_batch`,
`clear`, `get`, `has`, `info`, `make_read_only`, the flush cadence.  Every operation returns the
journal of mutating storage operations it issues, in issue order; the new disk is the old disk
with that journal applied — so a crash state is `disk.applyAll (journal.take k)`.
-/
namespace HC
open Codec Oplog

inductive Event
  | get (i : Nat)
  | upgrade
  | have (start len : Nat)
deriving DecidableEq, Repr, Inhabited

structure Core where
  publicKey : Bytes
  secret : Option Bytes
  oplog : Oplog.State
  header : Oplog.Header
  tree : Tree
  bitfield : Bitfield
  skipFlush : Nat := 0
deriving Inhabited

/-- result of an operation: new memory state (absent if the instance is unusable), observation, journal -/
structure Step (α : Type) where
  core : Core
  result : R α
  journal : List SOp := []
  events : List Event := []

namespace Core

def updateContiguous (h : Header) (b : Bitfield) (u : BitfieldUpdate) : Header :=
  let fin := u.start + u.length
  let c := h.contiguous
  if u.drop then
    if c > u.start then { h with contiguous := u.start } else h
  else if c ≤ fin ∧ c ≥ u.start then
    let rec scan : Nat → Nat → Nat
      | 0, c => c
      | fuel+1, c => if b.get c then scan fuel (c + 1) else c
    { h with contiguous := scan (b.bits.size + 1) fin }
  else h

/-- `update_header_with_changeset`: the entry for a changeset, and the header it implies -/
def entryOf (cs : Changeset) (bf : Option BitfieldUpdate) (h : Header) : Entry × Header :=
  if cs.upgraded then
    let sig := cs.signature.getD []
    ({ treeNodes := cs.nodes, treeUpgrade := some ⟨cs.fork, cs.ancestors, cs.length, sig⟩, bitfield := bf },
     { h with tree := { h.tree with rootHash := cs.hash.getD [], signature := sig, length := cs.length } })
  else ({ treeNodes := cs.nodes, treeUpgrade := none, bitfield := bf }, h)

def shouldFlush (c : Core) : Bool × Core :=
  if c.skipFlush = 0 ∨ c.oplog.entriesByteLength ≥ Spec.maxEntriesBytes then (true, { c with skipFlush := Spec.flushEvery - 1 })
  else (false, { c with skipFlush := c.skipFlush - 1 })

/-- `flush_bitfield_and_tree_and_oplog` -/
def flushAll (c : Core) (clearTraces : Bool) : Core × List SOp :=
  let (bf, j1) := c.bitfield.flush
  let (tr, j2) := c.tree.flush
  let (ol, j3) := Oplog.flush c.oplog c.header clearTraces
  ({ c with bitfield := bf, tree := tr, oplog := ol }, j1 ++ j2 ++ j3)

def maybeFlush (c : Core) : Core × List SOp :=
  let (f, c1) := c.shouldFlush
  if f then c1.flushAll false else (c1, [])

structure AppendOutcome where
  length : Nat
  byteLength : Nat

/-- `append_batch` -/
def appendBatch (C : Crypto) (c : Core) (batch : List Bytes) : Step AppendOutcome :=
  match c.secret with
  | none => { core := c, result := .error .err }
  | some seed =>
    if batch.isEmpty then { core := c, result := .ok ⟨c.tree.length, c.tree.byteLength⟩ }
    else
      let cs := batch.foldl (Tree.append C) c.tree.changeset
      let cs := Tree.hashAndSign C cs seed
      let j0 : List SOp := [.write .data c.tree.byteLength batch.flatten]
      let bu : BitfieldUpdate := ⟨false, cs.ancestors, cs.batchLength⟩
      let (entry, header) := entryOf cs (some bu) c.header
      let (ol, j1) := Oplog.appendEntry c.oplog entry
      let bf := c.bitfield.setRange bu.start bu.length true
      let header := updateContiguous header bf bu
      match c.tree.commit cs with
      | .error e => { core := { c with oplog := ol, header := header, bitfield := bf }, result := .error e, journal := j0 ++ j1 }
      | .ok tree =>
        let c1 := { c with oplog := ol, header := header, bitfield := bf, tree := tree }
        let (c2, j2) := c1.maybeFlush
        { core := c2, result := .ok ⟨c2.tree.length, c2.tree.byteLength⟩, journal := j0 ++ j1 ++ j2,
          events := [.upgrade, .have bu.start bu.length] }

def has (c : Core) (i : Nat) : Bool := c.bitfield.get i

/-- `get` -/
def getBlock (c : Core) (d : Disk) (i : Nat) : Step (Option Bytes) :=
  if !c.bitfield.get i then { core := c, result := .ok none, events := [.get i] }
  else
    match c.tree.byteRange d.tree i with
    | .error e => { core := c, result := .error e }
    | .ok (off, len) =>
      if len = 0 then { core := c, result := .ok (some []) }
      else match d.data.read off len with
        | none => { core := c, result := .error .err }
        | some bs => { core := c, result := .ok (some bs) }

/-- first index of the widest hole around a cleared range: one past the last held block at or before `start` -/
def holeStart (bf : Bitfield) (start : Nat) : Nat :=
  match bf.lastIndexOfTrue start with | some i => i + 1 | none => 0

/-- end of that hole: the first held block at or after `fin`, else the length -/
def holeEnd (bf : Bitfield) (fin len : Nat) : Nat :=
  match bf.indexOfTrue fin with | some i => i | none => len

/-- `clear`; `d` is the disk before the call -/
def clear (c : Core) (d : Disk) (start fin : Nat) : Step Unit :=
  if start ≥ fin then { core := c, result := .ok () }
  else
    let entry : Entry := { bitfield := some ⟨true, start, fin - start⟩ }
    let (ol, j1) := Oplog.appendEntry c.oplog entry
    let bf := c.bitfield.setRange start (fin - start) false
    let header := if start < c.header.contiguous then { c.header with contiguous := start } else c.header
    let c1 := { c with oplog := ol, bitfield := bf, header := header }
    let s' := holeStart bf start
    let e' := holeEnd bf fin c.tree.length
    match c.tree.byteOffset d.tree s' with
    | .error e => { core := c1, result := .error e, journal := j1 }
    | .ok off =>
      if e' = 0 then { core := c1, result := .error .panic, journal := j1 } else
      match c.tree.byteRange d.tree (e' - 1) with
      | .error e => { core := c1, result := .error e, journal := j1 }
      | .ok (lo, ll) =>
        if lo + ll < off then { core := c1, result := .error .panic, journal := j1 } else
        -- the backend refuses a delete that starts beyond the end of the file; the storage layer
        -- treats that as "nothing left to delete" (no operation reaches the store)
        let j2 : List SOp := if off > (d.applyAll j1).data.size then [] else [.del .data off (lo + ll - off)]
        let (c2, j3) := c1.maybeFlush
        { core := c2, result := .ok (), journal := j1 ++ j2 ++ j3 }

structure Info where
  length : Nat
  byteLength : Nat
  contiguous : Nat
  fork : Nat
  writeable : Bool

def info (c : Core) : Info := ⟨c.tree.length, c.tree.byteLength, c.header.contiguous, c.tree.fork, c.secret.isSome⟩

/-- `make_read_only` -/
def makeReadOnly (c : Core) : Step Bool :=
  if c.secret.isSome then
    let c1 := { c with secret := none, header := { c.header with secret := none } }
    let (c2, j) := c1.flushAll true
    { core := c2, result := .ok true, journal := j }
  else { core := c, result := .ok false }

/-- replay of one entry on open -/
def replayEntry (C : Crypto) (d : Disk) (st : Oplog.State × Header × Tree × Bitfield) (e : Entry) :
    R (Oplog.State × Header × Tree × Bitfield) :=
  let (ol, h, t, b) := st
  let t := e.treeNodes.foldl Tree.addNode t
  let (h, b) := match e.bitfield with
    | some u => let b' := b.setRange u.start u.length (!u.drop); (updateContiguous h b' u, b')
    | none => (h, b)
  match e.treeUpgrade with
  | none => .ok (ol, h, t, b)
  | some u =>
    match t.truncate d.tree u.length u.fork with
    | .error x => .error x
    | .ok cs =>
      if u.signature.length ≠ 64 then .error .err else
      let cs := { cs with ancestors := u.ancestors, hash := some (Tree.rootsHash C cs.roots), signature := some u.signature }
      let (_, h) := entryOf cs none h
      match t.commit cs with
      | .error x => .error x
      | .ok t => .ok (ol, h, t, b)

/-- `Hypercore::new`.  `keyPair = none` is `HypercoreBuilder::open(true)`.  Returns the journal too
    (only a freshly created store writes). -/
def openCore (C : Crypto) (keyPair : Option (Bytes × Option Bytes)) (d : Disk) : R (Core × List SOp) :=
  match Oplog.openLog keyPair d.oplog.toList with
  | .error e => .error e
  | .ok o =>
    let d1 := d.applyAll o.ops
    match Tree.openTree o.header.tree d1.tree with
    | .error e => .error e
    | .ok tree =>
      let bf := Bitfield.ofFile d1.bitfield
      let rec replay : List Entry → (Oplog.State × Header × Tree × Bitfield) → R (Oplog.State × Header × Tree × Bitfield)
        | [], st => .ok st
        | e :: es, st => match replayEntry C d1 st e with
          | .error x => .error x
          | .ok st' => replay es st'
      match replay o.entries (o.state, o.header, tree, bf) with
      | .error e => .error e
      | .ok (ol, h, t, b) =>
        .ok ({ publicKey := h.publicKey, secret := h.secret, oplog := ol, header := h, tree := t,
               bitfield := { b with dirty := b.dirty }, skipFlush := 0 }, o.ops)

end Core
end HC
