/-! Basic byte utilities shared by the model (import-free). -/
namespace HC

abbrev Bytes := List UInt8

def hexDigit (n : Nat) : Char :=
  if n < 10 then Char.ofNat (48 + n) else Char.ofNat (87 + n)

def hex (bs : Bytes) : String :=
  String.ofList (bs.flatMap fun b => [hexDigit (b.toNat / 16), hexDigit (b.toNat % 16)])

def hexVal (c : Char) : Option Nat :=
  if c.isDigit then some (c.toNat - 48)
  else if 'a'.toNat ≤ c.toNat ∧ c.toNat ≤ 'f'.toNat then some (c.toNat - 87)
  else if 'A'.toNat ≤ c.toNat ∧ c.toNat ≤ 'F'.toNat then some (c.toNat - 55)
  else none

def unhexChars : List Char → Option Bytes
  | [] => some []
  | [_] => none
  | a :: b :: r => do
    let x ← hexVal a
    let y ← hexVal b
    let rest ← unhexChars r
    pure (UInt8.ofNat (x * 16 + y) :: rest)

/-- "-" denotes the empty byte string in the line protocol -/
def unhex (s : String) : Option Bytes :=
  if s == "-" then some [] else unhexChars s.toList

def hexOrDash (bs : Bytes) : String := if bs.isEmpty then "-" else hex bs

/-- little-endian fixed-width encoding of a natural number (truncating) -/
def leBytes (n : Nat) : Nat → Bytes
  | 0 => []
  | k+1 => UInt8.ofNat (n % 256) :: leBytes (n / 256) k

def leVal : Bytes → Nat
  | [] => 0
  | b :: bs => b.toNat + 256 * leVal bs

theorem leBytes_length (n k : Nat) : (leBytes n k).length = k := by
  induction k generalizing n with
  | zero => rfl
  | succ k ih => simp [leBytes, ih]

theorem leVal_leBytes (k n : Nat) (h : n < 256 ^ k) : leVal (leBytes n k) = n := by
  induction k generalizing n with
  | zero => simp at h; subst h; rfl
  | succ k ih =>
    simp only [leBytes, leVal]
    have h2 : n / 256 < 256 ^ k := by
      rw [Nat.div_lt_iff_lt_mul (by decide)]; rw [Nat.pow_succ] at h; omega
    rw [ih _ h2]
    have : (UInt8.ofNat (n % 256)).toNat = n % 256 := by
      simp [UInt8.toNat_ofNat']
    rw [this]; omega

end HC
