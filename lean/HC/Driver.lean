import HC.Model.Codec
/-! Line-protocol driver: one operation per input line, one observation line per operation.
    Import-free apart from the model, so that it links as a `lean_exe`. -/
namespace HC.Driver
open HC HC.Codec

def words (s : String) : List String := (s.trimAscii.toString.splitOn " ").filter (· ≠ "")

def nodeTxt (n : Node) : String := s!"{n.index}:{n.length}:{hexOrDash n.hash}"
def nodesTxt (l : List Node) : String :=
  if l.isEmpty then "-" else ",".intercalate (l.map nodeTxt)

def parseNode (s : String) : Option Node :=
  match s.splitOn ":" with
  | [a, b, c] => do
    let i ← a.toNat?
    let l ← b.toNat?
    let h ← unhex c
    pure ⟨i, l, h⟩
  | _ => none

def parseNodes (s : String) : Option (List Node) :=
  if s == "-" then some [] else (s.splitOn ",").mapM parseNode

/-- observation for a `codec` line, in the same format as the Rust harness -/
def codecObs {α : Type} [DecidableEq α] (enc : α → Bytes) (dec : Bytes → Option (α × Bytes)) (size : α → Nat)
    (txt : α → String) (v : α) : String :=
  let e := enc v
  let d := match dec e with
    | some (x, r) => s!"dec=ok:{txt x} rest={r.length} same={decide (x = v)}"
    | none => "dec=err"
  let t := match dec (e ++ [0xaa, 0xbb, 0xcc]) with
    | some (x, r) => s!"tail=ok:{decide (x = v)}:{hexOrDash r}"
    | none => "tail=err"
  let ks := (List.range e.length).filter fun k => (dec (e.take k)).isSome
  let bad := "[" ++ ", ".intercalate (ks.map toString) ++ "]"
  s!"size={size v} written={e.length} enc={hexOrDash e} {d} {t} prefixes={e.length} prefix_errs={e.length - ks.length} prefix_ok_at={bad}"

def decObs {α : Type} (dec : Bytes → Option (α × Bytes)) (txt : α → String) (b : Bytes) : String :=
  match dec b with
  | some (x, r) => s!"ok:{txt x} rest={r.length}"
  | none => "err"

def rbTxt (m : RequestBlock) : String := s!"{m.index} {m.nodes}"
def rsTxt (m : RequestSeek) : String := s!"{m.bytes}"
def ruTxt (m : RequestUpgrade) : String := s!"{m.start} {m.length}"
def dbTxt (m : DataBlock) : String := s!"{m.index} {hexOrDash m.value} {nodesTxt m.nodes}"
def dhTxt (m : DataHash) : String := s!"{m.index} {nodesTxt m.nodes}"
def dsTxt (m : DataSeek) : String := s!"{m.bytes} {nodesTxt m.nodes}"
def duTxt (m : DataUpgrade) : String :=
  s!"{m.start} {m.length} {nodesTxt m.nodes} {nodesTxt m.additionalNodes} {hexOrDash m.signature}"

def codecLine (ws : List String) : Option String :=
  match ws with
  | ["Node", n] => do
    let v ← parseNode n
    pure (codecObs encNode decNode sizeNode nodeTxt v)
  | ["RequestBlock", a, b] => do
    let v : RequestBlock := ⟨← a.toNat?, ← b.toNat?⟩
    pure (codecObs encRequestBlock decRequestBlock sizeRequestBlock rbTxt v)
  | ["RequestSeek", a] => do
    let v : RequestSeek := ⟨← a.toNat?⟩
    pure (codecObs encRequestSeek decRequestSeek sizeRequestSeek rsTxt v)
  | ["RequestUpgrade", a, b] => do
    let v : RequestUpgrade := ⟨← a.toNat?, ← b.toNat?⟩
    pure (codecObs encRequestUpgrade decRequestUpgrade sizeRequestUpgrade ruTxt v)
  | ["DataBlock", a, b, c] => do
    let v : DataBlock := ⟨← a.toNat?, ← unhex b, ← parseNodes c⟩
    pure (codecObs encDataBlock decDataBlock sizeDataBlock dbTxt v)
  | ["DataHash", a, c] => do
    let v : DataHash := ⟨← a.toNat?, ← parseNodes c⟩
    pure (codecObs encDataHash decDataHash sizeDataHash dhTxt v)
  | ["DataSeek", a, c] => do
    let v : DataSeek := ⟨← a.toNat?, ← parseNodes c⟩
    pure (codecObs encDataSeek decDataSeek sizeDataSeek dsTxt v)
  | ["DataUpgrade", a, b, c, d, e] => do
    let v : DataUpgrade := ⟨← a.toNat?, ← b.toNat?, ← parseNodes c, ← parseNodes d, ← unhex e⟩
    pure (codecObs encDataUpgrade decDataUpgrade sizeDataUpgrade duTxt v)
  | _ => none

def decodeLine (ty : String) (b : Bytes) : String :=
  match ty with
  | "Node" => decObs decNode nodeTxt b
  | "RequestBlock" => decObs decRequestBlock rbTxt b
  | "RequestSeek" => decObs decRequestSeek rsTxt b
  | "RequestUpgrade" => decObs decRequestUpgrade ruTxt b
  | "DataBlock" => decObs decDataBlock dbTxt b
  | "DataHash" => decObs decDataHash dhTxt b
  | "DataSeek" => decObs decDataSeek dsTxt b
  | "DataUpgrade" => decObs decDataUpgrade duTxt b
  | _ => "bad-op"

/-- stateless operations -/
def pureLine (ws : List String) : Option String :=
  match ws with
  | "codec" :: rest => some ((codecLine rest).getD "bad-op")
  | ["decode", ty, h] => some (match unhex h with | some b => decodeLine ty b | none => "bad-op")
  | _ => none

end HC.Driver
