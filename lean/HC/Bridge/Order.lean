import HC.Generated
import HC.Model.Proof
/-! Bridging lemmas for the **order of the storage-affecting steps** inside the mutating calls: `tools/extract.py` reads
    the positions of the marker calls in `src/core.rs` (`block_store.put`, `oplog.append_changeset`, `bitfield.update`,
    `tree.commit`, `should_flush…`; `bitfield.flush`, `tree.flush`, `oplog.flush`) on every run; the model's journals
    are assembled in that order (`model_*` below, by unfolding the model). -/
namespace HC.Bridge.Order
open HC HC.Core

/-- the order found in the source is the order the model was written for -/
theorem step_orders : Generated.core_flush_order = ["bitfield", "tree", "oplog"]
    ∧ Generated.core_apply_order = ["verify", "data", "entry", "bits", "commit", "flush"]
    ∧ Generated.core_append_order = ["data", "entry", "bits", "commit", "flush"]
    ∧ Generated.core_clear_order = ["entry", "bits", "data", "flush"] := by decide

/-- `flush_bitfield_and_tree_and_oplog`: dirty pages, then unflushed nodes, then the header -/
theorem model_flush_order (c : Core) (ct : Bool) :
    (c.flushAll ct).2 = c.bitfield.flush.2 ++ c.tree.flush.2 ++ (Oplog.flush c.oplog c.header ct).2 := rfl

/-- `verify_and_apply_proof` after verification: the block's data write (`j0`), then the oplog entry, then — bitfield
    and tree being updated in memory — the periodic flush -/
theorem model_apply_order (c : Core) (p : Proof) (cs : Changeset) (j0 : List SOp) (bu : Option Oplog.BitfieldUpdate) :
    ∃ rest, (applyVerified c p cs j0 bu).journal = j0 ++ (Oplog.appendEntry c.oplog (entryOf cs bu c.header).1).2 ++ rest := by
  unfold applyVerified
  simp only []
  cases c.tree.commit cs with
  | error e => exact ⟨[], by simp [finishApply]⟩
  | ok t => exact ⟨_, by simp only [finishApply]; rfl⟩

/-- `append_batch`: the blocks' data write, then the oplog entry, then the periodic flush -/
theorem model_append_order (C : Crypto) (c : Core) (seed : Bytes) (batch : List Bytes) (hs : c.secret = some seed) (hne : batch.isEmpty = false) :
    ∃ e rest, (c.appendBatch C batch).journal = [SOp.write .data c.tree.byteLength batch.flatten] ++ (Oplog.appendEntry c.oplog e).2 ++ rest := by
  unfold appendBatch
  simp only [hs, hne, Bool.false_eq_true, ite_false]
  cases c.tree.commit (Tree.hashAndSign C (batch.foldl (Tree.append C) c.tree.changeset) seed) with
  | error e => exact ⟨_, [], by simp only [List.append_nil]; rfl⟩
  | ok t => exact ⟨_, _, rfl⟩

end HC.Bridge.Order
