import HC.Generated
import HC.Spec.Consts
/-! Bridging lemmas: constants, bit masks, flag bits and the slot-rotation table extracted from
    `src/oplog/{mod,entry,header}.rs` agree with what the model and the theorems use. -/
namespace HC.Bridge.Oplog
open HC

theorem sizes : Generated.oplog_HEADER_SIZE = Spec.headerSize
    ∧ Generated.oplog_slot_FirstHeader = 0
    ∧ Generated.oplog_slot_SecondHeader = Spec.headerSize
    ∧ Generated.oplog_slot_Entries = Spec.entriesOffset
    ∧ Generated.oplog_LEADER_SIZE = Spec.leaderSize
    ∧ Generated.oplog_CRC_SIZE = 4
    ∧ Generated.oplog_MAX_OPLOG_ENTRIES_BYTE_SIZE = Spec.maxEntriesBytes := by decide

theorem initial_bits : Generated.oplog_initial_bits = Spec.initialBits := by decide

/-- the two branches of `get_next_header_oplog_slot_and_bit_value`, tabulated over all four states -/
theorem next_slot : Generated.oplog_next_table =
    [false, true].flatMap fun b0 => [false, true].map fun b1 => ((b0, b1), Spec.nextSlot b0 b1) := by decide

theorem current_bit : Generated.oplog_current_bit_is_xor = true := by decide

/-- the leader word is read and written with the same layout: len << 2 | partial << 1 | header -/
theorem leader_masks : Generated.leader_read_len_shift = 2 ∧ Generated.leader_write_len_shift = 2
    ∧ Generated.leader_read_header_mask = 1 ∧ Generated.leader_write_header_mask = 1
    ∧ Generated.leader_read_partial_mask = 2 ∧ Generated.leader_write_partial_mask = 2
    ∧ Generated.leader_min_len = Spec.leaderSize := by decide

/-- entry flag bits: `encode` and `decode` use the same bit for each of the four sections -/
theorem entry_flags : Generated.entry_encode_flags = Spec.entryFlags
    ∧ Generated.entry_decode_flags = Spec.entryFlags
    ∧ Generated.entry_encode_order = ["user_data", "tree_nodes", "tree_upgrade", "bitfield"]
    ∧ Generated.bitfield_update_drop_mask = 1 := by decide

theorem header_layout : Generated.header_version_flags = Spec.headerVersionFlags
    ∧ Generated.header_field_order = ["key", "manifest", "key_pair", "user_data", "tree", "hints"] := by decide

end HC.Bridge.Oplog
