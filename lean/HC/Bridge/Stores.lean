import HC.Generated
import HC.Spec.Consts
/-! Bridging lemmas for the tree and bitfield stores, the hash scheme, the flush cadence and events. -/
namespace HC.Bridge.Stores
open HC

theorem tree_nodes : Generated.tree_NODE_SIZE = Spec.nodeSize ∧ Generated.tree_flush_stride = Spec.nodeSize := by decide

/-- bitfield pages: 1024 words = 4096 bytes = 32768 bits; pages are loaded with the page stride -/
theorem bitfield_pages : Generated.bitfield_FIXED_BITFIELD_BYTES_LENGTH = Spec.pageBytes
    ∧ Generated.bitfield_FIXED_BITFIELD_BITS_LENGTH = Spec.pageBits
    ∧ Generated.bitfield_DYNAMIC_PAGE_SIZE = Spec.pageBits
    ∧ Generated.bitfield_open_stride = Spec.pageBytes
    ∧ Generated.bitfield_open_page_div = Spec.pageBytes := by decide

theorem hash_scheme : Generated.hash_LEAF_TYPE = Spec.leafType ∧ Generated.hash_PARENT_TYPE = Spec.parentType
    ∧ Generated.hash_ROOT_TYPE = Spec.rootType ∧ Generated.hash_TREE = Spec.treeNamespace := by decide

theorem flush_cadence : Generated.core_skip_flush_initial = 0
    ∧ Generated.core_skip_flush_reload + 1 = Spec.flushEvery := by decide

theorem event_queue : Generated.events_MAX_QUEUE = Spec.maxEventQueue := by decide

end HC.Bridge.Stores
