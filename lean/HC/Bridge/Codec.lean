import HC.Generated
import HC.Spec.Consts
/-! Bridging lemmas: the field order each message uses in `encoded_size`, `encode` and `decode`
    (extracted from `src/encoding.rs`) is the protocol order the model's encoders are written in. -/
namespace HC.Bridge.Codec
open HC

theorem node : Generated.msg_Node_size_fields = Spec.msgFields "Node"
    ∧ Generated.msg_Node_encode_fields = Spec.msgFields "Node"
    ∧ Generated.msg_Node_decode_fields = Spec.msgFields "Node" := by decide
theorem requestBlock : Generated.msg_RequestBlock_size_fields = Spec.msgFields "RequestBlock"
    ∧ Generated.msg_RequestBlock_encode_fields = Spec.msgFields "RequestBlock"
    ∧ Generated.msg_RequestBlock_decode_fields = Spec.msgFields "RequestBlock" := by decide
theorem requestSeek : Generated.msg_RequestSeek_size_fields = Spec.msgFields "RequestSeek"
    ∧ Generated.msg_RequestSeek_encode_fields = Spec.msgFields "RequestSeek"
    ∧ Generated.msg_RequestSeek_decode_fields = Spec.msgFields "RequestSeek" := by decide
theorem requestUpgrade : Generated.msg_RequestUpgrade_size_fields = Spec.msgFields "RequestUpgrade"
    ∧ Generated.msg_RequestUpgrade_encode_fields = Spec.msgFields "RequestUpgrade"
    ∧ Generated.msg_RequestUpgrade_decode_fields = Spec.msgFields "RequestUpgrade" := by decide
theorem dataBlock : Generated.msg_DataBlock_size_fields = Spec.msgFields "DataBlock"
    ∧ Generated.msg_DataBlock_encode_fields = Spec.msgFields "DataBlock"
    ∧ Generated.msg_DataBlock_decode_fields = Spec.msgFields "DataBlock" := by decide
theorem dataHash : Generated.msg_DataHash_size_fields = Spec.msgFields "DataHash"
    ∧ Generated.msg_DataHash_encode_fields = Spec.msgFields "DataHash"
    ∧ Generated.msg_DataHash_decode_fields = Spec.msgFields "DataHash" := by decide
theorem dataSeek : Generated.msg_DataSeek_size_fields = Spec.msgFields "DataSeek"
    ∧ Generated.msg_DataSeek_encode_fields = Spec.msgFields "DataSeek"
    ∧ Generated.msg_DataSeek_decode_fields = Spec.msgFields "DataSeek" := by decide
theorem dataUpgrade : Generated.msg_DataUpgrade_size_fields = Spec.msgFields "DataUpgrade"
    ∧ Generated.msg_DataUpgrade_encode_fields = Spec.msgFields "DataUpgrade"
    ∧ Generated.msg_DataUpgrade_decode_fields = Spec.msgFields "DataUpgrade" := by decide

end HC.Bridge.Codec
