import HC.Base
import HC.Crypto.Blake2b
import HC.Crypto.Ed25519
import HC.Crypto.Crc32
