import HC.DriverCore
open HC.Driver

partial def loop (h : IO.FS.Stream) (out : IO.FS.Stream) (w : World) : IO Unit := do
  let line ← h.getLine
  if line.isEmpty then return ()
  let ws := words line
  match pureLine ws with
  | some o => out.putStrLn o; loop h out w
  | none =>
    match coreLine w ws with
    | some (w', o) => out.putStrLn o; loop h out w'
    | none =>
      match replLine w ws with
      | some (w', o) => out.putStrLn o; loop h out w'
      | none => out.putStrLn "bad-op"; loop h out w

def main : IO Unit := do
  let stdin ← IO.getStdin
  let stdout ← IO.getStdout
  loop stdin stdout {}
