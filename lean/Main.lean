import HC.Driver
open HC.Driver

partial def loop (h : IO.FS.Stream) (out : IO.FS.Stream) : IO Unit := do
  let line ← h.getLine
  if line.isEmpty then return ()
  let ws := words line
  match pureLine ws with
  | some o => out.putStrLn o
  | none => out.putStrLn "bad-op"
  loop h out

def main : IO Unit := do
  let stdin ← IO.getStdin
  let stdout ← IO.getStdout
  loop stdin stdout
