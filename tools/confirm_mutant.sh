#!/bin/sh
# tools/confirm_mutant.sh <worktree> <mutant-dir>   — confirm a seeded change in a scratch worktree:
# the crate compiles, the existing suite passes with it, its demo fails with it and passes without.
# DEMO_FEATURES=<features> runs the demo with --features <features> (demos behind a non-default cargo feature).
wt="$1"; m="$2"
export CARGO_NET_OFFLINE=true CARGO_TARGET_DIR="$wt/target"
cd "$wt" || exit 2
git checkout -q -- . ; rm -f tests/demo.rs
res="$m/confirm.txt"; : > "$res"
git apply "$m/patch.diff" || { echo "apply: FAIL" >> "$res"; exit 1; }
echo "apply: ok" >> "$res"
if cargo test --offline --workspace --no-fail-fast > "$m/suite_with.log" 2>&1; then echo "suite_with_change: pass" >> "$res"; else echo "suite_with_change: FAIL" >> "$res"; fi
cp "$m/demo.rs" tests/demo.rs
if cargo test --offline ${DEMO_FEATURES:+--features $DEMO_FEATURES} --test demo > "$m/demo_with.log" 2>&1; then echo "demo_with_change: pass (UNEXPECTED)" >> "$res"; else echo "demo_with_change: fails" >> "$res"; fi
rm -f tests/demo.rs; git checkout -q -- .
cp "$m/demo.rs" tests/demo.rs
if cargo test --offline ${DEMO_FEATURES:+--features $DEMO_FEATURES} --test demo > "$m/demo_without.log" 2>&1; then echo "demo_without_change: pass" >> "$res"; else echo "demo_without_change: FAIL" >> "$res"; fi
rm -f tests/demo.rs; git checkout -q -- .
[ -n "$DEMO_FEATURES" ] && echo "demo_features: $DEMO_FEATURES" >> "$res"
cat "$res"
