#!/bin/sh
# Build the framework from files on disk only (offline).
set -e
cd "$(dirname "$0")/.."
export CARGO_NET_OFFLINE=true
python3 tools/extract.py
(cd lean && lake build HC drv $(python3 -c "
import sys; sys.path.insert(0,'../tools')
from props import PROPS
mods=set()
for k,v in PROPS.items():
    mods.add('HC.Props.'+k)
    for b in v.get('bridge_modules',[]): mods.add(b)
print(' '.join(sorted(mods)))"))
[ -f harness/Cargo.lock ] || cp /repo/Cargo.lock harness/Cargo.lock
(cd harness && cargo build --release --offline)
