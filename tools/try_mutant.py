#!/usr/bin/env python3
"""tools/try_mutant.py <patch.diff> <ID> [<ID>...]  — apply a seeded change to /repo, run the quick
checks of the given properties, undo the change straight afterwards. Prints one line per property."""
import subprocess, sys, os
patch = os.path.abspath(sys.argv[1])
ids = sys.argv[2:]
ROOT = os.path.dirname(os.path.dirname(os.path.abspath(__file__)))
ENV = dict(os.environ, VERIF_EVIDENCE_DIR=os.path.join(ROOT, "work", "mutant-evidence"))
def sh(c, **k): return subprocess.run(c, shell=True, stdout=subprocess.PIPE, stderr=subprocess.STDOUT, text=True, env=ENV, **k)
st = sh("git -C /repo status --porcelain").stdout.strip()
if st:
    print("refusing: /repo has uncommitted changes:\n" + st); sys.exit(2)
r = sh(f"git -C /repo apply {patch}")
if r.returncode != 0:
    print("patch does not apply:", r.stdout); sys.exit(2)
try:
    for i in ids:
        r = sh(f"bin/check {i} quick", cwd=ROOT)
        lines = [l for l in r.stdout.split("\n") if l.startswith("VIOLATION") or l.startswith("KNOWN") or " ok " in l[:40] or l.startswith("  ")]
        print(f"== {i}: exit {r.returncode}")
        for l in lines[:6]:
            print("   " + l[:400])
finally:
    sh("git -C /repo checkout -- .")
    print("reverted:", sh("git -C /repo status --porcelain").stdout.strip() or "clean")
