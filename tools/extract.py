#!/usr/bin/env python3
"""Translator: regenerates lean/HC/Generated.lean from /repo's current sources.

Only a small, robust fragment is translated (constants, flag bits, field orders, the lock shape of
SharedCore methods).  Each item is found by an anchored regular expression; when an anchor is not
found (harmless refactor) the previously generated value is kept and the item is listed in
lean/HC/Generated.report.json as "differential-only" — that by itself is not a violation.
"""
import json, os, re, sys

REPO = os.environ.get("HC_REPO", "/repo")
ROOT = os.path.dirname(os.path.dirname(os.path.abspath(__file__)))
OUT = os.path.join(ROOT, "lean", "HC", "Generated.lean")
REPORT = os.path.join(ROOT, "lean", "HC", "Generated.report.json")


def src(rel):
    try:
        return open(os.path.join(REPO, rel)).read()
    except OSError:
        return ""


def strip_comments(s):
    s = re.sub(r"//[^\n]*", "", s)
    return re.sub(r"/\*.*?\*/", "", s, flags=re.S)


def const_int(text, name):
    m = re.search(r"const\s+%s\s*:\s*\w+\s*=\s*([^;]+);" % re.escape(name), text)
    if not m:
        m = re.search(r"static\s+%s\s*:\s*\w+\s*=\s*([^;]+);" % re.escape(name), text)
    if not m:
        return None
    return m.group(1).strip()


def eval_int(expr, env):
    """tiny expression evaluator: integer literals, known names, + - * / << >> | & parentheses"""
    e = expr
    e = re.sub(r"\bas\s+\w+", "", e)
    e = re.sub(r"(\d)_(\d)", r"\1\2", e)
    e = re.sub(r"(\d+)(u8|u16|u32|u64|usize|i32|i64)\b", r"\1", e)
    for k in sorted(env, key=len, reverse=True):
        e = re.sub(r"\b%s\b" % re.escape(k), str(env[k]), e)
    e = e.replace("/", "//")
    if not re.fullmatch(r"[\d\s+\-*/()<>|&x0-9a-fA-F]+", e):
        return None
    try:
        return int(eval(e, {"__builtins__": {}}))
    except Exception:
        return None


def fn_body(text, name):
    m = re.search(r"fn\s+%s\b[^{]*\{" % re.escape(name), text)
    if not m:
        return None
    i = m.end()
    depth = 1
    while i < len(text) and depth:
        if text[i] == "{":
            depth += 1
        elif text[i] == "}":
            depth -= 1
        i += 1
    return text[m.end():i - 1]


def impl_block(text, header_regex):
    m = re.search(header_regex + r"\s*\{", text)
    if not m:
        return None
    i = m.end()
    depth = 1
    while i < len(text) and depth:
        if text[i] == "{":
            depth += 1
        elif text[i] == "}":
            depth -= 1
        i += 1
    return text[m.end():i - 1]


def main():
    items = {}      # name -> lean term (string)
    missing = []

    def put(name, val):
        if val is None:
            missing.append(name)
        else:
            items[name] = val

    # ---- oplog/mod.rs
    t = strip_comments(src("src/oplog/mod.rs"))
    env = {}
    for c in ["MAX_OPLOG_ENTRIES_BYTE_SIZE", "HEADER_SIZE", "CRC_SIZE", "LEN_PARTIAL_AND_HEADER_INFO_SIZE", "LEADER_SIZE"]:
        e = const_int(t, c)
        v = eval_int(e, env) if e else None
        if v is not None:
            env[c] = v
        put("oplog_" + c, str(v) if v is not None else None)
    m = re.search(r"enum\s+OplogSlot\s*\{([^}]*)\}", t)
    if m:
        for nm, ex in re.findall(r"(\w+)\s*=\s*([^,}]+)", m.group(1)):
            v = eval_int(ex, env)
            put("oplog_slot_" + nm, str(v) if v is not None else None)
    else:
        missing += ["oplog_slot_FirstHeader", "oplog_slot_SecondHeader", "oplog_slot_Entries"]
    m = re.search(r"INITIAL_HEADER_BITS\s*:\s*\[bool;\s*2\]\s*=\s*\[\s*(true|false)\s*,\s*(true|false)\s*\]", t)
    put("oplog_initial_bits", "(%s, %s)" % (m.group(1), m.group(2)) if m else None)
    # next slot / bit: the two branches of get_next_header_oplog_slot_and_bit_value
    b = fn_body(t, "get_next_header_oplog_slot_and_bit_value")
    tbl = None
    if b:
        m = re.search(r"if\s+header_bits\[0\]\s*(!=|==)\s*header_bits\[1\]\s*\{\s*\(OplogSlot::(\w+),\s*(!?)header_bits\[(\d)\]\)\s*\}\s*else\s*\{\s*\(OplogSlot::(\w+),\s*(!?)header_bits\[(\d)\]\)", b)
        if m:
            cmp_, s1, n1, i1, s2, n2, i2 = m.groups()
            rows = []
            for b0 in (False, True):
                for b1 in (False, True):
                    cond = (b0 != b1) if cmp_ == "!=" else (b0 == b1)
                    slot, neg, idx = (s1, n1, int(i1)) if cond else (s2, n2, int(i2))
                    bit = (b0, b1)[idx]
                    if neg:
                        bit = not bit
                    rows.append("((%s, %s), (%s, %s))" % (str(b0).lower(), str(b1).lower(),
                                                         "true" if slot == "SecondHeader" else "false", str(bit).lower()))
            tbl = "[" + ", ".join(rows) + "]"
    put("oplog_next_table", tbl)   # ((b0,b1),(second_slot?, bit))
    b = fn_body(t, "get_current_header_bit")
    m = re.search(r"self\.header_bits\[0\]\s*(!=|==)\s*self\.header_bits\[1\]", b or "")
    put("oplog_current_bit_is_xor", ("true" if m.group(1) == "!=" else "false") if m else None)
    b = fn_body(t, "validate_leader") or ""
    m1 = re.search(r"combined\s*>>\s*(\d+)", b)
    m2 = re.search(r"header_bit\s*=\s*combined\s*&\s*(\d+)\s*==\s*(\d+)", b)
    m3 = re.search(r"partial_bit\s*=\s*combined\s*&\s*(\d+)\s*==\s*(\d+)", b)
    put("leader_read_len_shift", m1.group(1) if m1 else None)
    put("leader_read_header_mask", m2.group(1) if m2 and m2.group(1) == m2.group(2) else None)
    put("leader_read_partial_mask", m3.group(1) if m3 and m3.group(1) == m3.group(2) else None)
    put("leader_min_len", (re.search(r"buffer\.len\(\)\s*<\s*(\d+)", b) or [None, None])[1])
    b = fn_body(t, "build_len_and_info_header") or ""
    m1 = re.search(r"partial_bit\s*:\s*u32\s*=\s*if\s+partial_bit\s*\{\s*(\d+)\s*\}\s*else\s*\{\s*0\s*\}", b)
    m2 = re.search(r"header_bit\s*:\s*u32\s*=\s*if\s+header_bit\s*\{\s*(\d+)\s*\}\s*else\s*\{\s*0\s*\}", b)
    m3 = re.search(r"\(data_length\s*<<\s*(\d+)\)\s*\|\s*header_bit\s*\|\s*partial_bit", b)
    put("leader_write_partial_mask", m1.group(1) if m1 else None)
    put("leader_write_header_mask", m2.group(1) if m2 else None)
    put("leader_write_len_shift", m3.group(1) if m3 else None)

    # ---- oplog/entry.rs: flag bits used by encode and, separately, by decode
    t = strip_comments(src("src/oplog/entry.rs"))
    blk = impl_block(t, r"impl\s+CompactEncoding\s+for\s+Entry")
    enc = fn_body(blk or "", "encode") or ""
    dec = fn_body(blk or "", "decode") or ""
    ef = re.findall(r"flags\s*\|=\s*(\d+)", enc)
    df = re.findall(r"flags\s*&\s*(\d+)\s*!=\s*0", dec)
    put("entry_encode_flags", "[" + ", ".join(ef) + "]" if len(ef) == 4 else None)
    put("entry_decode_flags", "[" + ", ".join(df) + "]" if len(df) == 4 else None)
    # order of the sections in encode / decode
    eo = re.findall(r"self\.(user_data|tree_nodes|tree_upgrade|bitfield)\.is_empty\(\)|Some\((tree_upgrade|bitfield)\)\s*=\s*&self", enc)
    put("entry_encode_order", "[" + ", ".join('"%s"' % (a or b_) for a, b_ in eo) + "]" if len(eo) == 4 else None)
    blk = impl_block(t, r"impl\s+CompactEncoding\s+for\s+BitfieldUpdate")
    d = fn_body(blk or "", "decode") or ""
    m = re.search(r"drop:\s*flags\s*&\s*(\d+)\s*==\s*(\d+)", d)
    put("bitfield_update_drop_mask", m.group(1) if m and m.group(1) == m.group(2) else None)

    # ---- oplog/header.rs
    t = strip_comments(src("src/oplog/header.rs"))
    blk = impl_block(t, r"impl\s+CompactEncoding\s+for\s+Header")
    e = fn_body(blk or "", "encode") or ""
    m = re.search(r"write_array\(&\[\s*([^\]]+)\]", e)
    vals = None
    if m:
        parts = [eval_int(x, {}) for x in m.group(1).split(",")]
        if all(p is not None for p in parts):
            vals = "[" + ", ".join(map(str, parts)) + "]"
    put("header_version_flags", vals)
    m = re.search(r"map_encode!\(\s*rest\s*,([^)]*)\)", e)
    put("header_field_order", "[" + ", ".join('"%s"' % x.strip().replace("self.", "") for x in m.group(1).split(",") if x.strip()) + "]" if m else None)

    # ---- crypto/hash.rs
    t = strip_comments(src("src/crypto/hash.rs"))
    for c in ["LEAF_TYPE", "PARENT_TYPE", "ROOT_TYPE"]:
        m = re.search(r"const\s+%s\s*:\s*\[u8;\s*1\]\s*=\s*\[\s*(0x[0-9a-fA-F]+|\d+)\s*\]" % c, t)
        put("hash_" + c, str(int(m.group(1), 0)) if m else None)
    m = re.search(r"const\s+TREE\s*:\s*\[u8;\s*32\]\s*=\s*\[([^\]]*)\]", t)
    if m:
        bs = [int(x.strip(), 0) for x in m.group(1).split(",") if x.strip()]
        put("hash_TREE", "[" + ", ".join(map(str, bs)) + "]" if len(bs) == 32 else None)
    else:
        missing.append("hash_TREE")

    # ---- tree
    t = strip_comments(src("src/tree/merkle_tree.rs"))
    e = const_int(t, "NODE_SIZE")
    put("tree_NODE_SIZE", str(eval_int(e, {})) if e else None)
    b = fn_body(t, "flush_nodes") or ""
    m = re.search(r"node\.index\s*\*\s*(\d+)", b)
    put("tree_flush_stride", m.group(1) if m else None)

    # ---- bitfield
    t = strip_comments(src("src/bitfield/fixed.rs"))
    benv = {}
    for c in ["FIXED_BITFIELD_LENGTH", "FIXED_BITFIELD_BYTES_LENGTH", "FIXED_BITFIELD_BITS_LENGTH"]:
        e = const_int(t, c)
        v = eval_int(e, benv) if e else None
        if v is not None:
            benv[c] = v
        put("bitfield_" + c, str(v) if v is not None else None)
    t = strip_comments(src("src/bitfield/dynamic.rs"))
    e = const_int(t, "DYNAMIC_BITFIELD_PAGE_SIZE")
    put("bitfield_DYNAMIC_PAGE_SIZE", str(eval_int(e, benv)) if e else None)
    b = fn_body(t, "open") or ""
    m1 = re.search(r"data_index\s*\+=\s*(\w+)", b)
    m2 = re.search(r"parent_index\s*:\s*u64\s*=\s*\(data_index\s*/\s*(\w+)\)", b)
    put("bitfield_open_stride", str(eval_int(m1.group(1), benv)) if m1 else None)
    put("bitfield_open_page_div", str(eval_int(m2.group(1), benv)) if m2 else None)

    # ---- core.rs
    t = strip_comments(src("src/core.rs"))
    b = fn_body(t, "should_flush_bitfield_and_tree_and_oplog") or ""
    m = re.search(r"self\.skip_flush_count\s*=\s*(\d+)", b)
    put("core_skip_flush_reload", m.group(1) if m else None)
    m = re.search(r"skip_flush_count:\s*(\d+)\s*,", t)
    put("core_skip_flush_initial", m.group(1) if m else None)

    # ---- order of the storage-affecting steps inside the mutating calls (positions of the marker calls in the body)
    def order_of(body, markers):
        pos = []
        for label, rx in markers:
            m = re.search(rx, body or "")
            if m is None:
                return None
            pos.append((m.start(), label))
        return "[" + ", ".join('"%s"' % l for _, l in sorted(pos)) + "]"
    put("core_flush_order", order_of(fn_body(t, "flush_bitfield_and_tree_and_oplog"),
        [("bitfield", r"self\.bitfield\.flush\("), ("tree", r"self\.tree\.flush\("), ("oplog", r"self\.oplog\.flush\(")]))
    put("core_apply_order", order_of(fn_body(t, "verify_and_apply_proof"),
        [("verify", r"self\.verify_proof\("), ("data", r"self\.block_store\.put\("), ("entry", r"self\.oplog\.append_changeset\("),
         ("bits", r"self\.bitfield\.update\("), ("commit", r"self\.tree\.commit\("), ("flush", r"self\.should_flush_bitfield_and_tree_and_oplog\(")]))
    put("core_append_order", order_of(fn_body(t, "append_batch"),
        [("data", r"self\s*\.block_store\s*\.append_batch\("), ("entry", r"self\.oplog\.append_changeset\("),
         ("bits", r"self\.bitfield\.update\("), ("commit", r"self\.tree\.commit\("), ("flush", r"self\.should_flush_bitfield_and_tree_and_oplog\(")]))
    put("core_clear_order", order_of(fn_body(t, "clear"),
        [("entry", r"self\.oplog\.clear\("), ("bits", r"self\.bitfield\.set_range\("), ("data", r"self\.block_store\.clear\("),
         ("flush", r"self\.should_flush_bitfield_and_tree_and_oplog\(")]))

    # ---- events
    t = strip_comments(src("src/replication/events.rs"))
    e = const_int(t, "MAX_EVENT_QUEUE_CAPACITY")
    put("events_MAX_QUEUE", str(eval_int(e, {})) if e else None)

    # ---- encoding.rs: field order of each message in encoded_size / encode / decode
    t = strip_comments(src("src/encoding.rs"))
    for ty in ["Node", "RequestBlock", "RequestSeek", "RequestUpgrade", "DataBlock", "DataHash", "DataSeek", "DataUpgrade"]:
        blk = impl_block(t, r"impl\s+CompactEncoding\s+for\s+%s\b" % ty) or ""
        def fields(body):
            fs = re.findall(r"self\.(\w+)", body or "")
            out = []
            for f in fs:
                if f not in out and f not in ("encoded_size", "encode"):
                    out.append(f)
            return out
        se = fields(fn_body(blk, "encoded_size"))
        eb = fn_body(blk, "encode") or ""
        mm = re.search(r"map_encode!\(\s*\w+\s*,([^)]*)\)", eb)
        if mm:
            en = [x.strip().replace("self.", "") for x in mm.group(1).split(",") if x.strip()]
        else:
            en = fields(eb)
        d = fn_body(blk, "decode") or ""
        m = re.search(r"let\s+\(\(?([\w\s,]+?)\)?\s*,\s*rest\)\s*=\s*(?:map_decode!|u64::decode)", d)
        de = [x.strip() for x in m.group(1).split(",")] if m else None
        if ty == "Node" and "hash" in en and "hash" not in se:
            se = se + ["hash"]   # encoded_size adds the constant 32 for the hash
        put("msg_%s_size_fields" % ty, "[" + ", ".join('"%s"' % f for f in se) + "]" if se else None)
        put("msg_%s_encode_fields" % ty, "[" + ", ".join('"%s"' % f for f in en) + "]" if en else None)
        put("msg_%s_decode_fields" % ty, "[" + ", ".join('"%s"' % f for f in de) + "]" if de else None)

    # ---- shared_core.rs: (method, number of lock() calls, inner call) per method
    t = strip_comments(src("src/replication/shared_core.rs"))
    rows = []
    extra = []
    for m in re.finditer(r"fn\s+(\w+)[^(;{]*\(\s*&self", t):
        name = m.group(1)
        body = fn_body(t[m.start():], name) or ""
        locks = len(re.findall(r"\.lock\(\)\s*\.await", body))
        inner = re.findall(r"core\s*\.\s*(\w+)\s*\(", body) or re.findall(r"\.lock\(\)\.await\.(\w+)\(", body)
        awaits_between = len(re.findall(r"\.await", body))
        rows.append('("%s", %d, %d, [%s])' % (name, locks, awaits_between, ", ".join('"%s"' % i for i in inner)))
        # anything that touches the shared state other than through the one guard: calls of other
        # methods of the wrapper (each takes the lock again), non-blocking or owned lock variants,
        # clones of the Arc, and a guard dropped by hand
        other = len(re.findall(r"\bself\s*\.\s*[a-z_]\w*\s*\(", body)) + len(re.findall(r"\b(?:try_lock|lock_arc|lock_blocking|try_lock_arc)\b", body)) \
            + len(re.findall(r"\bself\s*\.\s*0\s*\.\s*clone\b", body)) + len(re.findall(r"\bdrop\s*\(", body)) + len(re.findall(r"\bspawn\w*\s*\(", body))
        extra.append('("%s", %d)' % (name, other))
    put("shared_methods", "[" + ", ".join(rows) + "]" if rows else None)
    put("shared_other_access", "[" + ", ".join(extra) + "]" if extra else None)

    # ---- previous values for missing anchors
    prev = {}
    if os.path.exists(REPORT):
        try:
            prev = json.load(open(REPORT)).get("items", {})
        except Exception:
            prev = {}
    kept = []
    for name in missing:
        if name in prev:
            items[name] = prev[name]
            kept.append(name)

    types = {}
    def lean_type(v):
        if v in ("true", "false"):
            return "Bool"
        if re.fullmatch(r"\d+", v):
            return "Nat"
        if re.match(r'\[\("\w+", \d+\)', v):
            return "List (String × Nat)"
        if v.startswith('[("'):
            return "List (String × Nat × Nat × List String)"
        if v.startswith("[(("):
            return "List ((Bool × Bool) × (Bool × Bool))"
        if v.startswith('["') or v == "[]":
            return "List String"
        if v.startswith("["):
            return "List Nat"
        if v.startswith("("):
            return "Bool × Bool"
        return "String"

    lines = ["/-! GENERATED by tools/extract.py from /repo — do not edit.  Regenerated on every check run. -/",
             "namespace HC.Generated", ""]
    for k in sorted(items):
        lines.append("def %s : %s := %s" % (k, lean_type(items[k]), items[k]))
    lines += ["", "end HC.Generated", ""]
    new = "\n".join(lines)
    old = open(OUT).read() if os.path.exists(OUT) else None
    if new != old:
        open(OUT, "w").write(new)
    json.dump(dict(items=items, missing=[m for m in missing if m not in kept], kept_previous=kept), open(REPORT, "w"), indent=1, sort_keys=True)
    if missing:
        print("extract.py: anchors not found (tie for these items is differential only):", ", ".join(missing))
    print("extract.py: %d items -> %s%s" % (len(items), OUT, "" if new != old else " (unchanged)"))


if __name__ == "__main__":
    main()
