"""Per-property configuration for tools/check.py."""

def _codec_runs(tier, seed, replay):
    n = 4000 if tier == "quick" else 60000
    return [["codec", "--seed", str(seed), "--n", str(n)]]

PROPS = {
    "C11": dict(
        theorems=["HC.C11.node", "HC.C11.requestBlock", "HC.C11.requestSeek", "HC.C11.requestUpgrade",
                  "HC.C11.dataBlock", "HC.C11.dataHash", "HC.C11.dataSeek", "HC.C11.dataUpgrade"],
        bridge_modules=["HC.Bridge.Codec"],
        bridging=["HC.Bridge.Codec.node", "HC.Bridge.Codec.requestBlock", "HC.Bridge.Codec.requestSeek",
                  "HC.Bridge.Codec.requestUpgrade", "HC.Bridge.Codec.dataBlock", "HC.Bridge.Codec.dataHash",
                  "HC.Bridge.Codec.dataSeek", "HC.Bridge.Codec.dataUpgrade"],
        runs=_codec_runs,
        rule="values of the 8 message types with integers drawn mostly from varint boundaries "
             "(0,1,252,253,254,65535,65536,2^32-1,2^32,2^40,2^64-1,...), byte strings 0..300, node lists 0..8; "
             "every strict prefix of every encoding is decoded; plus a malformed stream of arbitrary short byte strings. "
             "distinct = distinct encodings; non-trivial = encoding longer than one byte",
        trusted=["compact-encoding crate (dependency): varint thresholds are modelled from its spec and compared byte-for-byte"],
        assumptions=["integers < 2^64, hashes 32 bytes (what the Rust types can hold)"],
    ),
}
