"""Per-property configuration for tools/check.py."""

def _codec_runs(tier, seed, replay):
    n = 4000 if tier == "quick" else 60000
    return [["codec", "--seed", str(seed), "--n", str(n)]]

OPLOG_BRIDGE = ["HC.Bridge.Oplog.sizes", "HC.Bridge.Oplog.initial_bits", "HC.Bridge.Oplog.next_slot",
                "HC.Bridge.Oplog.current_bit", "HC.Bridge.Oplog.leader_masks", "HC.Bridge.Oplog.entry_flags",
                "HC.Bridge.Oplog.header_layout"]
ORDER_BRIDGE = ["HC.Bridge.Order.step_orders", "HC.Bridge.Order.model_flush_order", "HC.Bridge.Order.model_apply_order", "HC.Bridge.Order.model_append_order"]
STORES_BRIDGE = ["HC.Bridge.Stores.tree_nodes", "HC.Bridge.Stores.bitfield_pages", "HC.Bridge.Stores.hash_scheme",
                 "HC.Bridge.Stores.flush_cadence"]
LOG_TRUSTED = ["dependency crates are modelled, not verified: flat-tree (ported), compact-encoding, random-access-* (flat file model), crc32fast/blake2/ed25519-dalek (re-implemented in Lean; compared byte-for-byte incl. signatures)",
               "the Either-instruction read protocol, IntMap/RefCell containers and async plumbing are not modelled (the model reads its node store directly)",
               "integers are Nat in the model; u64 wrap-around is not represented"]

def S(seed, k):
    return str(seed * 1000 + k)

def _c01_runs(tier, seed, replay):
    if tier == "quick":
        return [["log", "--kind", "exhaustive", "--depth", "3", "--n", "100000"],
                ["log", "--seed", S(seed, 1), "--n", "120", "--maxops", "30"],
                ["log", "--seed", S(seed, 2), "--n", "120", "--maxops", "30"],
                ["log", "--seed", S(seed, 3), "--n", "30", "--maxops", "60", "--big", "1"],
                ["log", "--kind", "large", "--seed", S(seed, 4), "--n", "2"],
                ["log", "--kind", "words", "--seed", S(seed, 5), "--n", "40"],
                ["log", "--kind", "empties", "--seed", S(seed, 6), "--n", "150"]]
    return ([["log", "--kind", "exhaustive", "--depth", "4", "--n", "100000"]]
            + [["log", "--kind", "empties", "--seed", S(seed, 70 + i), "--n", "1500"] for i in range(2)]
            + [["log", "--kind", "words", "--seed", S(seed, 60 + i), "--n", "300"] for i in range(2)]
            + [["log", "--seed", S(seed, 10 + i), "--n", "250", "--maxops", "40"] for i in range(12)]
            + [["log", "--seed", S(seed, 30 + i), "--n", "40", "--maxops", "120", "--big", "1"] for i in range(4)]
            + [["log", "--kind", "large", "--seed", S(seed, 40 + i), "--n", "4"] for i in range(4)])

def _c02_runs(tier, seed, replay):
    if tier == "quick":
        return [["script", "--file", "/verif/corpus/C02-stale-entries-after-recovery.script"],
                ["crash", "--kind", "exhaustive", "--depth", "3", "--n", "100000"],
                ["crash", "--seed", S(seed, 1), "--n", "40", "--maxops", "14"],
                ["crash", "--seed", S(seed, 2), "--n", "40", "--maxops", "14"],
                ["repl", "--mode", "crash", "--seed", S(seed, 3), "--n", "20", "--maxlen", "12"],
                ["crash", "--kind", "large", "--seed", S(seed, 4), "--n", "1"],
                ["crash", "--kind", "double", "--seed", S(seed, 5), "--n", "80"]]
    return ([["script", "--file", "/verif/corpus/C02-stale-entries-after-recovery.script"], ["crash", "--kind", "exhaustive", "--depth", "4", "--n", "3000"]]
            + [["crash", "--kind", "double", "--seed", S(seed, 50 + i), "--n", "300"] for i in range(4)]
            + [["crash", "--seed", S(seed, 10 + i), "--n", "120", "--maxops", "16"] for i in range(10)]
            + [["repl", "--mode", "crash", "--seed", S(seed, 30 + i), "--n", "60", "--maxlen", "16"] for i in range(4)]
            + [["crash", "--kind", "large", "--seed", S(seed, 40 + i), "--n", "2"] for i in range(2)])

def _c07_runs(tier, seed, replay):
    if tier == "quick":
        return [["torn", "--seed", S(seed, 1), "--n", "8", "--maxops", "9"],
                ["torn", "--seed", S(seed, 2), "--n", "8", "--maxops", "9"],
                ["torn", "--seed", S(seed, 3), "--n", "8", "--maxops", "9"],
                ["torn", "--kind", "bits", "--seed", S(seed, 4), "--n", "6"],
                ["torn", "--kind", "exhaustive", "--depth", "2", "--n", "1000"]]
    return ([["torn", "--seed", S(seed, 10 + i), "--n", "30", "--maxops", "12"] for i in range(14)]
            + [["torn", "--kind", "bits", "--seed", S(seed, 40 + i), "--n", "25"] for i in range(4)]
            + [["torn", "--kind", "exhaustive", "--depth", "3", "--n", "400"]])

def _c08_runs(tier, seed, replay):
    if tier == "quick":
        return [["log", "--kind", "large", "--seed", S(seed, 1), "--n", "4"],
                ["crash", "--kind", "large", "--seed", S(seed, 2), "--n", "1"],
                ["log", "--seed", S(seed, 3), "--n", "150", "--maxops", "30"],
                ["repl", "--seed", S(seed, 4), "--n", "40", "--maxlen", "70"],
                ["repl", "--seed", S(seed, 5), "--n", "40", "--maxlen", "24"],
                ["log", "--kind", "words", "--seed", S(seed, 6), "--n", "60"],
                ["repl", "--kind", "page", "--seed", S(seed, 7), "--n", "1"]]
    return ([["log", "--kind", "large", "--seed", S(seed, 10 + i), "--n", "4"] for i in range(6)]
            + [["repl", "--kind", "page", "--seed", S(seed, 60 + i), "--n", "1"] for i in range(3)]
            + [["repl", "--seed", S(seed, 40 + i), "--n", "150", "--maxlen", "32"] for i in range(3)]
            + [["log", "--kind", "words", "--seed", S(seed, 50 + i), "--n", "300"] for i in range(3)]
            + [["crash", "--kind", "large", "--seed", S(seed, 20 + i), "--n", "2"] for i in range(4)]
            + [["log", "--seed", S(seed, 30 + i), "--n", "300", "--maxops", "40"] for i in range(4)]
)

def _c03_runs(tier, seed, replay):
    if tier == "quick":
        return [["repl", "--seed", S(seed, i), "--n", "60", "--maxlen", str(m)] for i, m in [(1, 9), (2, 24), (3, 40), (4, 70)]]
    return [["repl", "--seed", S(seed, 10 + i), "--n", "300", "--maxlen", str(m)] for i, m in enumerate([9, 9, 24, 24, 40, 40, 70, 70, 120, 120, 300, 300])]

def _c04_runs(tier, seed, replay):
    if tier == "quick":
        return [["adv", "--kind", "alter", "--seed", S(seed, i), "--n", "90", "--maxlen", str(m)] for i, m in [(1, 8), (2, 12), (3, 20), (4, 30)]]
    return [["adv", "--kind", "alter", "--seed", S(seed, 10 + i), "--n", "500", "--maxlen", str(m)] for i, m in enumerate([8, 8, 12, 12, 20, 20, 30, 30, 50, 50, 12, 20])]

def _c09_runs(tier, seed, replay):
    if tier == "quick":
        return ([["adv", "--kind", "requests", "--seed", S(seed, i), "--n", "100", "--maxlen", str(m)] for i, m in [(1, 8), (2, 16)]]
                + [["adv", "--kind", "alter", "--seed", S(seed, i), "--n", "80", "--maxlen", str(m)] for i, m in [(3, 10), (4, 24)]])
    return ([["adv", "--kind", "requests", "--seed", S(seed, 10 + i), "--n", "600", "--maxlen", str(m)] for i, m in enumerate([8, 8, 16, 16, 30, 30, 60])]
            + [["adv", "--kind", "alter", "--seed", S(seed, 30 + i), "--n", "500", "--maxlen", str(m)] for i, m in enumerate([10, 10, 24, 24, 40])])

REPL_TRUSTED = LOG_TRUSTED + ["Ed25519 verification of ed25519-dalek is modelled by the RFC 8032 implementation in Lean (same accept/reject on every signature the runs produce)"]

def _c12_runs(tier, seed, replay):
    if tier == "quick":
        return [["readonly", "--seed", S(seed, i), "--n", "24", "--maxops", "8", "--crash", "1"] for i in range(1, 5)]
    return [["readonly", "--seed", S(seed, 10 + i), "--n", "120", "--maxops", "12", "--crash", "1"] for i in range(12)]

def _c13_runs(tier, seed, replay):
    if tier == "quick":
        return ([["events", "--seed", S(seed, i), "--n", "150", "--maxops", "25"] for i in range(1, 5)]
                + [["faults", "--kind", "events", "--seed", S(seed, 7), "--n", "25", "--maxops", "8"], ["faults", "--kind", "replica-events", "--seed", S(seed, 8), "--n", "12"]])
    return ([["events", "--seed", S(seed, 10 + i), "--n", "800", "--maxops", "30"] for i in range(12)]
            + [["faults", "--kind", "events", "--seed", S(seed, 30 + i), "--n", "150", "--maxops", "10"] for i in range(2)]
            + [["faults", "--kind", "replica-events", "--seed", S(seed, 40 + i), "--n", "80"] for i in range(2)])

def _c14_runs(tier, seed, replay):
    if tier == "quick":
        return ([["configs", "--seed", S(seed, i), "--n", "40", "--maxops", "25"] for i in range(1, 4)] + [["backends", "--seed", S(seed, 9), "--n", "300"]]
                + [["@nosparse", "configs", "--seed", S(seed, 4), "--n", "30", "--maxops", "25"], ["@nosparse", "backends", "--seed", S(seed, 8), "--n", "200"]])
    return ([["configs", "--seed", S(seed, 10 + i), "--n", "250", "--maxops", "30"] for i in range(12)] + [["backends", "--seed", S(seed, 40 + i), "--n", "2000"] for i in range(2)]
            + [["@nosparse", "configs", "--seed", S(seed, 30 + i), "--n", "250", "--maxops", "30"] for i in range(3)] + [["@nosparse", "backends", "--seed", S(seed, 50), "--n", "2000"]])

def _c10_runs(tier, seed, replay):
    if tier == "quick":
        return [["faults", "--seed", S(seed, i), "--n", "50", "--maxops", "9"] for i in range(1, 5)] + [["faults", "--kind", "replica", "--seed", S(seed, 5), "--n", "40"]]
    return ([["faults", "--seed", S(seed, 10 + i), "--n", "400", "--maxops", "12"] for i in range(12)]
            + [["faults", "--kind", "replica", "--seed", S(seed, 30 + i), "--n", "300"] for i in range(4)])

def _c05_runs(tier, seed, replay):
    if tier == "quick":
        return [["tree", "--seed", S(seed, i), "--n", "36", "--maxlen", str(m)] for i, m in [(1, 35), (2, 70), (3, 70), (4, 140)]]
    return ([["tree", "--seed", S(seed, 10 + i), "--n", "90", "--maxlen", "80"] for i in range(8)]
            + [["tree", "--seed", S(seed, 30 + i), "--n", "12", "--maxlen", str(m)] for i, m in enumerate([300, 600, 1100, 2100])])

def _c06_runs(tier, seed, replay):
    if tier == "quick":
        return [["layout", "--seed", S(seed, i), "--n", "14", "--maxops", "12"] for i in range(1, 5)]
    return [["layout", "--seed", S(seed, 10 + i), "--n", "80", "--maxops", "16"] for i in range(12)]

def _c15_runs(tier, seed, replay):
    if tier == "quick":
        return [["sched", "--seed", S(seed, i), "--n", "60"] for i in range(1, 9)]
    return [["sched", "--seed", S(seed, 10 + i), "--n", "700"] for i in range(16)]

PROPS = {
    "C15": dict(
        theorems=["HC.C15.mutex_linearizable", "HC.C15.sched_inv", "HC.C15.init_inv", "HC.C15.shape", "HC.C15.shape_covers", "HC.C15.shape_exclusive", "HC.C15.shape_exclusive_covers"],
        bridge_modules=[], bridging=[],
        runs=_c15_runs,
        partial="the theorem is about the lock discipline (acquire - body - release), for every deterministic step function and every schedule; the shape of each SharedCore method is re-extracted from the source on every run. What async-lock and the executor do at run time is outside the model: the run drives the real SharedCore under seeded-random schedules with a preemption at every storage operation.",
        rule="2-4 tasks x 1-4 calls from {append, append_batch, get, has, info, missing_nodes, create_proof on the writer; verify_and_apply_proof, get, has, info on a replica}, polled by a deterministic single-threaded scheduler (no-op waker) over a backend that returns Pending once per storage operation; the observed results and per-call journal slices in completion order must equal a sequential run in that order (else a Wing-Gong search over all orders consistent with program and real-time order, against the sequential real crate); append outcomes must be distinct; the same lines are replayed by the Lean model. distinct = distinct (programs, schedule) pairs",
        trusted=LOG_TRUSTED + ["async-lock (fair async mutex) and the futures executor are exercised, not modelled"],
    ),
    "C06": dict(
        theorems=["HC.C06.frame", "HC.C06.header_round_trip", "HC.C06.entry_round_trip", "HC.C06.entries_read_back",
                  "HC.C06.read_write", "HC.C06.bitfield_exact", "HC.C06.read_any_slots", "HC.C06.bitfield_pages",
                  "HC.C06.node_slot", "HC.C06.node_slot_inv", "HC.C06.history_stores"],
        bridge_modules=["HC.Bridge.Oplog", "HC.Bridge.Stores"], bridging=OPLOG_BRIDGE + STORES_BRIDGE,
        runs=_c06_runs,
        partial="proved: frame/header/entry round trips, read-back of any entry region, Oplog::open on any file laid out by the JS rules = the JS reader's rule (read_write for two valid slots in the exact slot layout, read_any_slots for any combination of valid/invalid slots, any frames, any non-frame tail), bitfield pages as little-endian bits, tree slots (8-byte LE size + hash) and the data store as the concatenation of the blocks along every history (history_stores). The interoperability hashes are covered by the run.",
        rule="(1) the five-step interoperability scenario of tests/js_interop.rs executed by the crate and by the model; SHA-256 of the four stores after each step compared with the golden constants read from that test file; (2) after every mutating operation of writer and replica histories the raw bytes of the four real stores are handed to the Lean reader, whose reconstruction is compared with what the API reports; (3) every final storage is re-encoded with an independent encoder as {header in slot 1 only, header in slot 0 only, stale entries appended, trailing garbage, trailing zero leader, last entry flagged partial} and opened by the crate and the model",
        trusted=LOG_TRUSTED + ["the golden hashes are trusted as certified against the JavaScript implementation (the JS side cannot be run here)"],
    ),
    "C05": dict(
        theorems=["HC.C05.nodes_eq_ref", "HC.C05.batch_roots", "HC.C05.roots_determined", "HC.C05.commit_keeps", "HC.C05.treeOK_empty",
                  "HC.C05.batch_independent", "HC.C05.root_hash_and_signature", "HC.C05.signature_verifies",
                  "HC.C05.rep_tree", "HC.C05.history_tree", "HC.C05.recovered_tree", "HC.C05.replica_tree_is_reference"],
        bridge_modules=["HC.Bridge.Stores"], bridging=["HC.Bridge.Stores.hash_scheme", "HC.Bridge.Stores.tree_nodes"],
        runs=_c05_runs,
        partial="proved for every crypto record, block list and split into appends: created nodes = reference nodes, roots = reference roots, root hash and signature as prescribed. On the model of the whole crate: after any history with reopen steps and after crash recovery the roots, length, byte length and every node lookup are the reference ones (history_tree, recovered_tree). 'Proofs carry persisted nodes' and the stored signature after reopen are validated by the run, which compares the crate with the Lean reference AND with a third reference in the harness (blake2 / ed25519-dalek called directly).",
        rule="block sequences with every length 0..max (root sets of every shape), sizes 0..5 KiB or fixed 3-byte blocks, any mix of single and batch appends and reopen steps; after flushes and at the end: every non-zero record of the tree store is compared with the reference node at that index, the roots of an upgrade proof 0..len and the nodes of sampled block proofs with the reference, the served signature is verified with ed25519-dalek over namespace|tree hash|length|fork; the Lean side recomputes the whole reference tree with its own BLAKE2b/Ed25519 and must agree digest-for-digest",
        trusted=LOG_TRUSTED + ["type bytes and namespace come from the source through bridging lemmas; Crypto.real is checked against RFC 7693/8032 vectors by agreement with blake2/ed25519-dalek on every hash and signature of every run"],
        assumptions=["signature_verifies assumes verify (publicKey seed) m (sign seed m) for the crypto record"],
    ),
    "C10": dict(
        theorems=["HC.C10.fault_is_crash", "HC.C10.fault_prefix_step", "HC.C10.fault_before_any", "HC.C10.no_fault_complete", "HC.C10.fault_recovers", "HC.C10.replica_fault_recovers", "HC.C10.replica_blockgrow_fault_recovers",
                  "HC.C02.reopen_exact", "HC.C02.flush_atomic"],
        bridge_modules=["HC.Bridge.Oplog", "HC.Bridge.Order"], bridging=OPLOG_BRIDGE + ORDER_BRIDGE,
        runs=_c10_runs,
        partial="the reduction 'fault at k = crash before k' is proved on the model's journals and inherits C02's theorems: for a writer core after any history, a fault at any storage operation of an append_batch/clear/read leaves stores that reopen to the log before or after the call (fault_recovers), and for a replica reached from creation by honest exchanges, reopens and crashes a fault at any storage operation of an honest proof application leaves stores that reopen to the replica before or after the application with the invariants re-established (replica_fault_recovers); that the Rust stops at the failing operation and maps the error (glue) is checked by injecting one error at every storage operation of every call",
        rule="for every call of every history (appends, batches, clears, make_read_only, reads, reopen; and, on a replica, every application of an honest proof - upgrade, block, block + upgrade, in random request order with growth rounds) and every index k of a storage operation it issues (write, delete, truncate, read, length query): the history prefix is replayed on a fresh instance, operation k fails with an I/O error; the call must return an error (not ok, no panic, no hang); drop + reopen must show exactly the state of the crash point with the same number of completed mutating operations (those crash states are compared with the Lean model and with the before/after oracle)",
        trusted=LOG_TRUSTED,
    ),
    "C14": dict(
        theorems=["HC.C14.file_laws", "HC.C14.backend_indep", "HC.C14.cache_transparent", "HC.C14.cache_fill_ok",
                  "HC.C14.cache_inv_transparent", "HC.C14.cache_inv_fill", "HC.C14.cache_inv_evict", "HC.C14.cache_inv_insert", "HC.C14.cache_inv_flush", "HC.C14.cache_inv_open", "HC.C14.agree_of_fresh", "HC.C14.backend_simulation", "HC.C14.backends_agree", "HC.C14.journal_on_backend", "HC.C14.cstep_inv", "HC.C14.cache_invisible_along"],
        bridge_modules=["HC.Bridge.Stores"], bridging=STORES_BRIDGE,
        runs=_c14_runs, alt_builds=["nosparse"],
        partial="proved: the flat-file laws, congruence of reads/writes under byte-for-byte agreement, the lift of per-operation backend laws to every journal of the model (backend_simulation, backends_agree, journal_on_backend: a backend standing for a store of the model's disk still stands for it after the journal of any call), transparency of any cache holding only non-blank stored nodes, and the invariant that keeps it so along a history (CacheInv: cached = non-blank node of the tree store; Agree: unflushed nodes never contradict a non-blank stored node) - it makes the cache invisible although it is consulted before the unflushed map (cache_inv_transparent) and survives fills from the store, any eviction, agreeing commits and flush_nodes (cache_inv_fill/evict/insert/flush). Validated (not proved): that the three real backends realise the flat file, that every history keeps Agree (appended nodes sit on fresh slots, a replica's nodes were compared with the stored ones) and that the crate inserts only nodes read from the store, deterministic signatures and flush cadence — by running every history under 6 configurations and the backends against the flat file.",
        rule="every history (log operations + replication requests incl. block/hash + seek combinations, reopen, dumps) is run on the reference configuration (instrumented backend, no cache; compared with the Lean model) and on 5 mirrors {cache default, cache 300 bytes, memory backend, disk backend, disk + tiny cache}; every answer and every raw store (up to trailing zero bytes across backends) must coincide; plus random write/read/del/truncate sequences on random-access-memory (page sizes 16, 1024, 1 MiB) and random-access-disk against the flat-file model",
        trusted=LOG_TRUSTED + ["moka (node cache) and the OS file system are exercised, not modelled", "the disk backend is run in both variants of random-access-disk: with the `sparse` feature (deletes punch holes; the crate's default) and without it (deletes write zeros) - the harness is built twice for this check"],
    ),
    "C12": dict(
        theorems=["HC.C12.not_writable", "HC.C12.ro_idempotent", "HC.C12.ro_result", "HC.C12.ro_journal", "HC.C12.ro_both_slots",
                  "HC.C12.ro_prefix_stores", "HC.C12.slot_full", "HC.C12.header_without_secret",
                  "HC.C12.readonly_forever", "HC.C12.ro_crash_atomic", "HC.C12.ro_torn_atomic"],
        bridge_modules=["HC.Bridge.Oplog"], bridging=OPLOG_BRIDGE,
        runs=_c12_runs,
        partial="proved on the model: make_read_only is one of the calls of the refinement theorems (C01.full_refinement, C02.crash_refinement, C07.torn_atomic): in every history it answers like the abstract log, a read-only log stays read-only across reopens and crash recoveries (readonly_forever), and a crash or torn write at any of its storage operations leaves the writable log or the same log read-only (ro_crash_atomic, ro_torn_atomic); the NotWritable gate, idempotence, and the exact storage operations of make_read_only (both header slots rewritten as full zero-padded slots from the secret-free header, entries truncated in between). That the resulting oplog FILE is exactly the two slots (File algebra) and the crash cases are covered by the run: raw bytes of all four stores are scanned for the seed, its halves and the expanded secret; every crash point inside the call is reopened.",
        rule="histories with 0..10 prior operations (all four header-bit parities, 0-3 unflushed entries) followed by make_read_only, all crash points inside the call, secret scan of the raw stores before/after, append refused, second call false, reopen read-only with the stored public key, key pair + open rejected, further operations; replicas (read-only from the start)",
        trusted=LOG_TRUSTED,
    ),
    "C13": dict(
        theorems=["HC.C13.append_events", "HC.C13.append_empty", "HC.C13.append_refused", "HC.C13.get_events", "HC.C13.clear_events",
                  "HC.C13.apply_events", "HC.C13.refused_events", "HC.C13.apply_announces", "HC.C13.append_announces"],
        bridge_modules=["HC.Bridge.Stores"], bridging=["HC.Bridge.Stores.event_queue"],
        runs=_c13_runs,
        partial="the announced ranges are exactly the blocks that became available (apply_announces, append_announces: after an accepted proof / a successful append a block is held iff it was held before or a have event of that call covers it); fan-out to several subscribers is a property of async-broadcast (modelled: every attached subscriber receives the operation's event list); the union-of-announced-ranges oracle is evaluated by the harness",
        rule="writer + replica with 0-3 subscribers each attached at random points and drained after every call: appends, empty batches, clears, reads of held/missing/out-of-range indices, accepted proofs (block/upgrade/both), refused and failing proofs, appends on a read-only core, and every mutating call / proof application replayed once per storage operation with that operation failing (a failed call announces nothing); per-call events compared with the list-model oracle and with the Lean model; union of announced ranges = blocks that became available",
        trusted=LOG_TRUSTED + ["async-broadcast (dependency) is modelled as per-subscriber queues below the capacity of 32"],
        assumptions=["fewer than 32 undrained events"],
    ),
    "C03": dict(
        theorems=["HC.C03.accept_commits", "HC.C03.accepted_events", "HC.C03.honest_block_accepted", "HC.C03.honest_first_upgrade_accepted", "HC.C03.sync_first_contact", "HC.C03.sync_invariant", "HC.C03.sync_progress", "HC.C03.replica_converges", "HC.C03.replica_grows", "HC.C03.replica_reopens", "HC.C03.cleared_block_no_proof", "HC.C03.created_block_value", "HC.C03.honest_block_with_upgrade_accepted", "HC.C03.block_with_upgrade_applied", "HC.C03.honest_blockgrowth_is_writers", "HC.C03.honest_new_block_with_upgrade_accepted", "HC.C03.new_block_with_upgrade_applied", "HC.C03.honest_newblock_is_writers", "HC.C03.next_block_with_upgrade_applied", "HC.C03.honest_growth_is_writers", "HC.C03.honest_hash_is_writers", "HC.C03.honest_block_is_writers", "HC.C03.missing_nodes_spec", "HC.C03.writer_answers", "HC.C03.block_accepted"],
        bridge_modules=["HC.Bridge.Oplog", "HC.Bridge.Stores", "HC.Bridge.Order"], bridging=OPLOG_BRIDGE + STORES_BRIDGE + ORDER_BRIDGE,
        runs=_c03_runs,
        partial="proved: honest block exchange (the replica's missing_nodes count, the writer's create_valueless_proof, the block bytes) is accepted by verify_proof on every sparse replica of the log, for every log/writer state/replica state/index; the first-contact upgrade (the writer's answer to 'upgrade from 0 to your length' = its reference roots + signature, accepted by a replica that knows nothing yet, which adopts exactly the writer's roots, length and fork: honest_first_upgrade_accepted); the exchange is closed under its own effects at tree level (sync_first_contact, sync_invariant, sync_progress: after first contact and any number of block exchanges in any order, each answered by create_valueless_proof, checked by verify_proof and committed, the replica is again a sparse replica at the writer's length with the writer's roots and fork, and the exchange for every block succeeds again - it never gets stuck); at CORE level (replica_converges): from a replica that knows nothing, the writer's upgrade answer and then its block answers for any list of indices in any order with repetitions are each applied by verify_and_apply_proof with answer true - verification, byte offset under the replica's own sparse tree, data write, oplog entry, bitfield, tree commit, periodic flush - and afterwards the replica reports the writer's length and byte length, every fetched block reads back byte-identical to the writer's block and every other index reads as not held (invariant Replica.RepR with a closed sparse tree); the same with GROWTH ROUNDS (replica_grows): after first contact at any length the replica plays any list of acts - upgrade to the writer's current, larger length (the answer is the greedy decomposition of [m,n) into aligned blocks; inside the first new root verify_upgrade's grow loop merges upwards like a binary counter) fetch block i below its current length, and ask for the hash of any full tree node inside its current length, in any order - every act is answered true and at the end it reports the last length and byte length and serves exactly the fetched blocks byte-identical; once verified and commitable a proof is always applied, with exactly the prescribed events. ACROSS RESTARTS, from creation (replica_reopens): the replica is created by Hypercore::new over empty stores from the public key alone, and among the acts the stores may be closed and reopened (Hypercore::new without key pair) any number of times - every reopen succeeds without writing, replays the oplog entries since the last flush to exactly the live header, tree and bitfield (ghost invariant ReplicaReopen.PersistR next to RepRAt; truncate finds the upgraded roots among the entry's nodes and the store), and the final statement is the same. The proofs used are the writer's own answers (honest_block_is_writers, honest_hash_is_writers, honest_growth_is_writers, honest_blockgrowth_is_writers, honest_newblock_is_writers). Not proved (validated by the run): proofs with seek sections, upgrades to less than the writer's length (additional nodes); (block+upgrade in one proof is proved for EVERY block: new_block_with_upgrade_applied - a block m <= i < n of the new part: the block's subtree root is one node of the honest position list, left out of the upgrade section, recomputed by the block climb and taken from verify_upgrade's extra slot exactly when its turn comes (honest_new_block_with_upgrade_accepted); the byte offset is computed under the changeset's node list - the block's path followed by the upgrade's nodes - and its new roots (offset_new_block); for a block below the replica's length together with an upgrade, honest_block_with_upgrade_accepted proves acceptance by verify_proof and block_with_upgrade_applied the whole application at core level: byte offset computed under the merged roots, data write, the single entry carrying nodes+upgrade+bitfield, commit, replay of that entry on reopen, the invariants again) - a block the writer does not hold (cleared) yields no proof, never a wrong one, and a created block proof carries exactly what get returns (cleared_block_no_proof, created_block_value) - every honest proof in every request order, partial upgrades, seeks, hash sweeps, replica reopen, cleared blocks must be accepted by crate and model and the replica must converge",
        rule="writer histories (appends, batches, clears, reopen) x replica request orders {block i with nodes from missing_nodes, hash of a tree node, seek, upgrade to any length in (replica, writer]} incl. partial upgrades with additional nodes, several growth rounds, replica reopen; create_proof output (every node, size, hash, signature), acceptance, journals and probes compared with the Lean model; oracle: accepted, replica bytes = writer bytes, length = writer's length at the upgrade. distinct = distinct transcripts",
        trusted=REPL_TRUSTED,
    ),
    "C04": dict(
        theorems=["HC.C04.refuse_fork", "HC.C04.refuse_invalid", "HC.C04.refuse_noop", "HC.C04.refuse_before_commit",
                  "HC.C04.sound_block", "HC.C04.sound_upgrade", "HC.C04.path_sound", "HC.C04.sound_first_contact", "HC.C04.sound_first_contact_extra", "HC.C04.sound_block_upgrade", "HC.C04.sound_upgrade_bytes", "HC.C04.sound_hash", "HC.C04.sound_block_seek", "HC.C04.sound_hash_seek", "HC.C04.sound_hash_upgrade", "HC.C04.sound_seek_upgrade", "HC.C04.sound_block_seek_upgrade", "HC.C04.sound_hash_seek_upgrade", "HC.C04.sound_seek", "HC.C04.empty_seek_is_no_seek"],
        bridge_modules=["HC.Bridge.Stores"], bridging=STORES_BRIDGE,
        runs=_c04_runs,
        partial="proved: refusal is a no-op; soundness of block-only proofs (writer's block or an explicit leaf/parent collision), of the hash climb in general, and of the roots/length/fork adopted by any accepted upgrade (signed head or an explicit root-hash collision / forgery). and of first-contact proofs (sound_first_contact: a block together with an upgrade from length 0 on a replica without roots delivers the writer's block - the block's root is shown to be one of the adopted, signed roots). and of block+upgrade proofs on any honest replica including the grow branch and additional nodes (sound_block_upgrade, sound_first_contact_extra). The adopted length and byte length are signed ones (sound_upgrade_bytes). Hash-only proofs (sound_hash) and block+seek proofs (sound_block_seek: the seek root waits in the block climb's queue as its extra node and the loop does not end before it is consumed, so the seek section is authenticated by the same comparison with a stored node): the requested / bottom node carries the writer's hash, and if its size is the writer's every node of the section is the writer's node - the sizes of the two bottom nodes are authenticated only as a sum, which is the one alteration the quantifier excludes. The same for hash+seek (sound_hash_seek). Hash section + upgrade (sound_hash_upgrade): the section's root is the extra node of verify_upgrade's queue; consumed by the upgrade it hashes up to signed roots (upgrade_extra_auth), otherwise it is compared with a stored node - the requested node carries the writer's hash in both cases. Seek sections next to an upgrade (sound_seek_upgrade, sound_block_seek_upgrade, sound_hash_seek_upgrade): the root verify_tree computes is authenticated either way (verifyProof_root_auth) and the section tails of the no-upgrade theorems apply to the writer's log or to its signed prefix of the adopted length - every combination of sections verify_proof accepts is covered. The alteration run checks the implementation on every altered proof.",
        rule="for every honest proof: 3-8 single-field alterations out of {value flip/length, block/hash index +-1, node hash flip/zero, node index/length +-1 (not the unauthenticated bottom sizes of hash/seek sections), node drop/dup/swap/insert, upgrade start/length +-1, empty upgrade, fork +-1, signature flip/short, signature of another key, section removal, whole proof of another writer}; oracle: refused => probes identical before/after and no storage operation; accepted => every held block equals the writer's, (length, byte length) is a prefix sum of the writer's log; afterwards honest replication completes. Outcome, journals and probes compared with the Lean model",
        trusted=REPL_TRUSTED,
    ),
    "C09": dict(
        theorems=["HC.C09.queue_total", "HC.C09.climb_total", "HC.C09.verify_tree_total_partial", "HC.C09.verify_upgrade_total", "HC.C09.verify_proof_total", "HC.C09.verify_proof_keeps", "HC.C09.create_valueless_proof_total", "HC.C09.create_proof_total", "HC.C09.verify_and_apply_total", "HC.C09.serve_along_history", "HC.C09.serve_on_synced_replica", "HC.C09.peer_never_panics"],
        bridge_modules=["HC.Bridge.Stores"], bridging=STORES_BRIDGE,
        runs=_c09_runs,
        partial="proved on the model, for all inputs: verify_proof (verify_tree + verify_upgrade + the comparison with the stored node) returns a value or an error for every proof, tree state and key; create_valueless_proof / create_proof return a proof or an error for every request (any node counts, seek offsets, upgrade windows; block index < 2^63, tree-node index < 2^65-1) on every tree whose roots sit at the root positions of its length (create_valueless_proof_total, create_proof_total; the shape holds along every writer history - serve_along_history - and on replicas reached by honest exchanges); verify_and_apply_proof at core level (byte offset under the new roots, oplog entry, bitfield, tree commit, flush) returns true/false/error for every proof (verify_and_apply_total; the commit's panic site is unreachable: verify_proof_keeps). No loop runs out of its fuel. The root shape survives verify_and_apply_proof of every proof (accepted upgrades adopt root positions of a signed prefix, by C04.sound_upgrade), so after any sequence of arbitrary proofs the next proof and request are answered without panic (peer_never_panics; assumptions: no root-list hash collision, the key verifies only what the writer signed, lengths are u64 values). Not covered by the theorems (run only): u64 overflow (the model computes in Nat; the property bounds fields by 2^40)",
        rule="cores: empty, one block, multi-root, with cleared blocks; request tuples with each of block/hash/seek/upgrade absent or at boundary values {0,1,2,len-1,len,len+1,2len,2len+1,2len+2,3,7,2^32,2^40-1,len/2}, on writer and replica; request tuples whose fields all lie inside the log but need not fit each other (any tree node for the hash, any byte for the seek, any upgrade window); proofs: the C04 alteration set; every call under catch_unwind with a 60 s watchdog; follow-up append/probe on the same core; outcome class compared with the Lean model",
        trusted=REPL_TRUSTED, assumptions=["numeric fields below 2^40"],
    ),
    "C01": dict(
        theorems=["HC.C01.live_refinement", "HC.C01.step_refines", "HC.C01.created", "HC.C01.created_refines", "HC.C01.full_refinement", "HC.C01.full_refinement_from", "HC.C01.history_invariants", "HC.C01.history_then_reopen", "HC.C01.reopen_then_continue",
                  "HC.C01.entry_reopen", "HC.C01.header_reopen", "HC.C01.frame_reopen", "HC.C01.held_after", "HC.C01.refines_partial"],
        bridge_modules=["HC.Bridge.Oplog", "HC.Bridge.Stores", "HC.Bridge.Order"], bridging=OPLOG_BRIDGE + STORES_BRIDGE + ORDER_BRIDGE,
        runs=_c01_runs,
        partial="proved on the model in full (full_refinement): for every history of append_batch/clear/get/has/info/make_read_only calls and close-and-reopen steps from a freshly created core, every observation equals the abstract block list + held set; the flush cadence, the oplog commit protocol and its byte layout, the flushed tree/bitfield stores and the replay on open are all inside the theorem. Hypotheses: 32-byte non-zero digests, 64-byte signatures, 32-byte key and seed, fewer than 2^62 blocks, batches below 2^20 blocks, clear bounds below 2^64. What ties the model to the Rust is the correspondence run (the label partial refers to that tie and to the hypotheses, not to an unproved part of the statement)",
        rule="histories over {append, batch 0..5, clear(start<end,start<len,end maybe beyond), get/has of any u64, info, reopen, probe}: bounded-exhaustive over a 10-symbol alphabet (full probe after each step), seeded-random long ones (blocks 0 B..70 KB), large cores crossing 8192/32768/65536; every observation and every storage operation (store, offset, bytes) is compared with the Lean model and with the harness's own list model. distinct = distinct full transcripts; non-trivial = at least 3 operations",
        trusted=LOG_TRUSTED, assumptions=["clear is called with start < end and start < length (the property's quantifier)",
                                          "live_refinement: hash functions return 32-byte digests that are never all zero (HashWF; an all-zero digest is the crate's 'blank' node) and lengths/byte totals stay below 2^64"],
    ),
    "C02": dict(
        theorems=["HC.C02.crash_refinement", "HC.C02.crash_refinement_from", "HC.C02.crash_atomic", "HC.C02.crash_then_continue", "HC.C02.acknowledged_stays", "HC.C02.history_invariants_reopen",
                  "HC.C02.reopen_exact", "HC.C02.append_commit", "HC.C02.flush_atomic", "HC.C02.fresh", "HC.C02.reachable", "HC.C02.crash_atomic_partial",
                  "HC.C02.replica_crash_atomic", "HC.C02.replica_first_crash_atomic", "HC.C02.replica_blockgrow_crash_atomic", "HC.C02.replica_newblock_crash_atomic", "HC.C02.replica_survives_crashes"],
        bridge_modules=["HC.Bridge.Oplog", "HC.Bridge.Stores", "HC.Bridge.Order"], bridging=OPLOG_BRIDGE + STORES_BRIDGE + ORDER_BRIDGE,
        runs=_c02_runs,
        partial="proved on the model (crash_atomic): after any history of calls and reopen steps of a writer core, for any further append_batch/clear/make_read_only/read and ANY prefix of its storage operations, Hypercore::new on the stores succeeds and the recovered core represents the log before the call or the log after it (length, byte length, has, get, exact contiguous length, writability), stays usable (crash_then_continue), and acknowledged calls stay applied (acknowledged_stays); crash points inside a flush (bitfield pages / tree nodes partly written, header written but entries not yet truncated) are inside the theorem. crash_refinement: histories in which calls complete, the store is closed and reopened, or the process dies after any number of storage operations of a call and the store is reopened, any number of times in any order, are observationally the abstract log in which each crash leaves the log before or after the interrupted call (recovery re-establishes the ghost invariant; Oplog::open cuts off stale entries - repo fix a6a0579). PROOF APPLICATIONS ON A REPLICA (replica_crash_atomic, replica_survives_crashes): for every replica state reached from creation (public key only) by first contact, honest upgrade/block/hash exchanges, close/reopen steps and earlier crashes (first contact included: replica_first_crash_atomic), every honest act and ANY prefix of the storage operations of its application (data write, oplog entry, and when the periodic flush is due bitfield pages, tree nodes, header, truncation), Hypercore::new succeeds and the replica shows exactly the state before the application or the state after it (length, byte length, has, get of every index, exact contiguous length) and satisfies the invariants again, so crashes can repeat without bound - the data write precedes the entry (a held bit never lacks its bytes), a bitfield store ahead of the header is tolerated because the replica's entries only set bits and the replayed hint is never stuck on a held bit (bitRun_exact), a tree store ahead of the header only gained reference nodes (replay_ext). A proof that carries a block below the replica's length AND an upgrade is one atomic step as well (replica_blockgrow_crash_atomic: never the upgrade without the block or the block without the upgrade; such steps and crashes inside them are steps of Reach). A block of the new part + upgrade is an atomic step too (replica_newblock_crash_atomic; a step of Reach). Not proved (validated by reopening every journal prefix on the real crate and on the model, including repeated crashes): replica-side clears, proofs with seek sections or additional nodes; same hypotheses as C01.full_refinement.",
        rule="for every history, after every mutating call, the storage is rebuilt from every prefix of that call's journal of write/delete/truncate operations, reopened with open(true), probed, and compared with the list model's before and after states and with the Lean model's prediction; some recovered cores are continued, and 'double' histories crash again inside the next call (make_read_only, append, batch, clear) on the recovered core, preferring the windows inside a flush. distinct = distinct transcripts",
        trusted=LOG_TRUSTED, assumptions=["each storage operation is atomic and persisted in issue order"],
    ),
    "C07": dict(
        theorems=["HC.C07.torn_atomic", "HC.C07.torn_atomic_from", "HC.C07.torn_then_continue", "HC.C07.torn_entry_ignored", "HC.C07.readEntries_stops", "HC.C07.torn_header_falls_back", "HC.C07.replica_torn_commit_point_partial", "HC.C07.replica_torn_header", "HC.C07.replica_blockgrow_torn_commit_point", "HC.C07.replica_torn_flush", "HC.C07.replica_torn_flush_first", "HC.C07.replica_torn_flush_blockgrow", "HC.C07.torn_flush_of_ok", "HC.C07.torn_header_of_ok", "HC.C07.torn_commit_of_ok", "HC.C07.replica_first_torn", "HC.C07.replica_blockgrow_torn_header", "HC.C07.replica_newblock_torn"],
        bridge_modules=["HC.Bridge.Oplog", "HC.Bridge.Order"], bridging=OPLOG_BRIDGE + ORDER_BRIDGE,
        runs=_c07_runs,
        partial="proved on the model (torn_atomic): after any history of calls and reopen steps of a writer core, for any further append_batch/clear/make_read_only/read, any storage operation k of it and any number t of bytes of that write that arrive, Hypercore::new succeeds and the recovered core represents the log before or after the call and stays usable; torn data, bitfield-page, tree-node and log-entry writes need no assumption, a torn header write assumes that the checksum rejects the half-written slot (CrcDetects, evaluated by the harness on every torn state it generates). On a replica (replica_torn_commit_point_partial): a torn write of the block's bytes or of the oplog entry of any honest proof application recovers to exactly the state before the application (the entry write is the commit point; no checksum assumption); a torn header write of the replica's periodic flush (all pages and nodes written; CrcDetects assumed) recovers to the state after the application (replica_torn_header). The same for first contact (replica_first_torn) and for block+upgrade proofs (replica_blockgrow_torn_commit_point, replica_blockgrow_torn_header); torn_commit_of_ok / torn_header_of_ok / torn_flush_of_ok state all three for every exchange step. Torn page and node writes inside the periodic flush of a replica (replica_torn_flush, replica_torn_flush_first, replica_torn_flush_blockgrow): if the k-th dirty page or (all pages written) the k-th unflushed node reaches its store only as a byte prefix, Hypercore::new succeeds and shows the replica exactly as the completed application leaves it (length, byte length, every held block byte-identical, has, exact contiguous length) - a half-written page holds bit by bit the old or the new value, which the replay of the old header's entries tolerates; a half-written node is one the replayed entries re-insert into the unflushed map, which shadows the store. Not proved (run only): that the ghost invariant for FURTHER crashes holds again after such a recovery (the stores are then not whole pages / whole slots until rewritten: the store's size is not a multiple of the page / node size).",
        rule="as C02, and for every crash point whose next operation is a write: every proper byte prefix (writes <= 64 bytes) or cuts at 1,3,4,5,7,8,9,12, half, last byte, every 512 bytes and 4 seeded cuts",
        trusted=LOG_TRUSTED, assumptions=["CrcDetects: a torn header slot does not pass the checksum unless it equals the old or the new frame"],
    ),
    "C08": dict(
        theorems=["HC.C08.has_after_update", "HC.C08.contig_step", "HC.C08.clear_rule_eq", "HC.C08.contig_reachable", "HC.C08.full",
                  "HC.C08.rep_exact", "HC.C08.writer_exact", "HC.C08.recovered_exact", "HC.C08.replica_exact", "HC.C08.replica_reopen_exact", "HC.C08.replica_crash_exact"],
        bridge_modules=["HC.Bridge.Stores"], bridging=STORES_BRIDGE,
        runs=_c08_runs,
        partial="proved: the incremental rule for every sequence of range updates (contig_reachable); and on the model of the whole crate, for a writer core after any history of calls and reopen steps and after recovery from a crash at any storage operation (bitfield pages ahead of the header hint), has() = the held set and contiguous_length = the first missing index (writer_exact, recovered_exact), page (de)serialisation included. On a replica (replica_exact): after first contact and the honest block answers for any list of indices in any order, applied by verify_and_apply_proof, has(i) is true exactly for the fetched indices and contiguous_length is the smallest index not fetched; the same from creation across growth rounds, hash requests and any number of close/reopen steps (replica_reopen_exact: the bitfield pages and the header hint written by the periodic flush plus the replayed entries give back exactly the live bitfield and hint). Across crashes (replica_crash_exact): in every state reached from a created replica by first contact, honest exchanges, reopens and crashes at any storage operation of an application followed by a reopen, without bound, has is the held set and the hint is the first index not held - also when the bitfield store is ahead of the replayed hint. That the Rust page/word/mask arithmetic realises setRange is validated by the correspondence run (cores up to 70k blocks, has() scanned on every index)",
        rule="cores filled past 8192, 32768 and 65536 blocks, clears straddling word/page edges, reopen and crash recovery in between; a replica that fills a whole 32768-bit page out of order and closes the gap at the hint last; has() on every index below length+2 and on boundary indices of the next pages; contiguous_length compared with the first missing index",
        trusted=LOG_TRUSTED, assumptions=["range updates have positive length"],
    ),
    "C11": dict(
        theorems=["HC.C11.node", "HC.C11.requestBlock", "HC.C11.requestSeek", "HC.C11.requestUpgrade",
                  "HC.C11.dataBlock", "HC.C11.dataHash", "HC.C11.dataSeek", "HC.C11.dataUpgrade"],
        bridge_modules=["HC.Bridge.Codec"],
        bridging=["HC.Bridge.Codec.node", "HC.Bridge.Codec.requestBlock", "HC.Bridge.Codec.requestSeek",
                  "HC.Bridge.Codec.requestUpgrade", "HC.Bridge.Codec.dataBlock", "HC.Bridge.Codec.dataHash",
                  "HC.Bridge.Codec.dataSeek", "HC.Bridge.Codec.dataUpgrade"],
        runs=_codec_runs,
        rule="values of the 8 message types with integers drawn mostly from varint boundaries "
             "(0,1,252,253,254,65535,65536,2^32-1,2^32,2^40,2^64-1,...), byte strings 0..300, node lists 0..8; "
             "every strict prefix of every encoding is decoded; plus a malformed stream of arbitrary short byte strings. "
             "distinct = distinct encodings; non-trivial = encoding longer than one byte",
        trusted=["compact-encoding crate (dependency): varint thresholds are modelled from its spec and compared byte-for-byte"],
        assumptions=["integers < 2^64, hashes 32 bytes (what the Rust types can hold)"],
    ),
}
