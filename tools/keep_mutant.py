#!/usr/bin/env python3
"""tools/keep_mutant.py <prop> <n> <src-dir> "<needs>" "<caught-by>"  — store a confirmed seeded change
under seeded/<prop>-<n>/ (patch.diff, demo.rs, notes.md, meta.json)."""
import json, os, shutil, sys
prop, n, src, needs, caught = sys.argv[1:6]
ROOT = os.path.dirname(os.path.dirname(os.path.abspath(__file__)))
dst = os.path.join(ROOT, "seeded", f"{prop}-{n}")
os.makedirs(dst, exist_ok=True)
for f in ("patch.diff", "demo.rs", "notes.md"):
    shutil.copy(os.path.join(src, f), os.path.join(dst, f))
conf = open(os.path.join(src, "confirm.txt")).read().strip().split("\n")
meta = dict(
    breaks=prop, needs_to_manifest=needs,
    confirmed_in_scratch_worktree=dict(l.split(": ", 1) for l in conf),
    what_was_run=["git apply patch.diff (scratch worktree of /repo)", "cargo test --offline --workspace --no-fail-fast  (existing suite, with the change)",
                  "cargo test --offline --test demo  (with the change: must fail)", "git checkout -- . ; cargo test --offline --test demo  (without: must pass)",
                  "tools/try_mutant.py patch.diff <properties>  (apply to /repo, run quick checks, revert)"],
    caught_by=caught, origin="independent sub-agent given only the property text and a scratch worktree")
json.dump(meta, open(os.path.join(dst, "meta.json"), "w"), indent=1)
print("kept", dst)
