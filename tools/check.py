#!/usr/bin/env python3
"""Orchestrates one property check:  tools/check.py <ID> quick|thorough [--replay file]

 1. tools/extract.py            Rust source -> lean/HC/Generated.lean
 2. lake build                  property theorems + bridging lemmas + driver; axiom audit
 3. cargo build (harness)       path-depends on /repo, i.e. the current working tree
 4. harness run                 generates cases, runs the real crate, evaluates the oracle
 5. Lean driver on the same ops; diff; classify; known-findings; evidence; exit code
"""
import json, os, re, subprocess, sys, time, hashlib, shutil

ROOT = os.path.dirname(os.path.dirname(os.path.abspath(__file__)))
LEAN = os.path.join(ROOT, "lean")
HARNESS = os.path.join(ROOT, "harness")
WORK = os.path.join(ROOT, "work")
ALLOWED_AXIOMS = {"propext", "Classical.choice", "Quot.sound"}
ENV = dict(os.environ, CARGO_NET_OFFLINE="true")

sys.path.insert(0, os.path.join(ROOT, "tools"))
from props import PROPS  # per-property configuration


def sh(cmd, cwd=None, timeout=None, env=None, stdin=None, stdout=None):
    return subprocess.run(cmd, cwd=cwd, shell=isinstance(cmd, str), stdout=stdout or subprocess.PIPE,
                          stderr=subprocess.STDOUT, text=True, timeout=timeout, env=env or ENV, stdin=stdin)


def lean_sources():
    out = []
    for d, _, fs in os.walk(LEAN):
        if ".lake" in d:
            continue
        for f in fs:
            if f.endswith(".lean"):
                out.append(os.path.join(d, f))
    return out


def grep_forbidden():
    """no sorry/admit/axiom/native_decide/... outside comments"""
    bad = []
    pat = re.compile(r"\b(sorry|admit|native_decide|bv_decide|implemented_by|unsafe)\b|^axiom\s|maxHeartbeats 0")
    for p in lean_sources():
        txt = open(p).read()
        txt = re.sub(r"/-.*?-/", lambda m: "\n" * m.group(0).count("\n"), txt, flags=re.S)
        for i, line in enumerate(txt.split("\n")):
            line = line.split("--")[0]
            if pat.search(line):
                bad.append(f"{os.path.relpath(p, ROOT)}:{i+1}: {line.strip()}")
    return bad


DRV_OK = False

def lean_stage(pid, cfg, thorough):
    """returns (obligations, discharged, failures[list of str], axioms{thm:[..]}, log)"""
    log = []
    failures = []
    r = sh([sys.executable, os.path.join(ROOT, "tools", "extract.py")], cwd=ROOT)
    log.append(r.stdout[-2000:])
    if r.returncode != 0:
        failures.append("extract.py failed: " + r.stdout[-500:])
    bad = grep_forbidden()
    if bad:
        failures.append("forbidden constructs: " + "; ".join(bad[:5]))
    # the driver first: a proof that no longer checks must not prevent the search for a failing input
    rd = sh(["lake", "build", "drv"], cwd=LEAN, timeout=3600)
    log.append(rd.stdout[-3000:])
    global DRV_OK
    DRV_OK = rd.returncode == 0
    if not DRV_OK:
        failures.append("driver build failed: " + rd.stdout[-300:])
    targets = [f"HC.Props.{pid}"] + cfg.get("bridge_modules", [])
    r = sh(["lake", "build"] + targets, cwd=LEAN, timeout=3600)
    log.append(r.stdout[-6000:])
    build_ok = r.returncode == 0
    failed_decls = []
    if not build_ok:
        # name the theorem(s) whose proof no longer checks
        for m in re.finditer(r"error: ([^\n]*?\.lean):(\d+):(\d+): ([^\n]*)", r.stdout):
            failed_decls.append(f"{os.path.basename(m.group(1))}:{m.group(2)}: {m.group(4)[:160]}")
        failures.append("lake build failed: " + "; ".join(failed_decls[:6]))
    axioms = {}
    theorems = cfg["theorems"]
    discharged = 0
    if build_ok:
        audit = os.path.join(WORK, f"Audit_{pid}.lean")
        os.makedirs(WORK, exist_ok=True)
        with open(audit, "w") as f:
            f.write(f"import HC.Props.{pid}\n" + "".join(f"import {b}\n" for b in cfg.get("bridge_modules", [])))
            for t in theorems + cfg.get("bridging", []):
                f.write(f"#print axioms {t}\n")
        r = sh(["lake", "env", "lean", audit], cwd=LEAN, timeout=1800)
        log.append(r.stdout[-4000:])
        cur = None
        text = r.stdout.replace("\n  ", " ")
        for m in re.finditer(r"'([^']+)' (depends on axioms: \[([^\]]*)\]|does not depend on any axioms)", text):
            axs = [a.strip() for a in (m.group(3) or "").split(",") if a.strip()]
            axioms[m.group(1)] = axs
        for t in theorems + cfg.get("bridging", []):
            if t not in axioms:
                failures.append(f"theorem {t} not found by the axiom audit")
            elif set(axioms[t]) - ALLOWED_AXIOMS:
                failures.append(f"theorem {t} depends on non-standard axioms {sorted(set(axioms[t]) - ALLOWED_AXIOMS)}")
            else:
                discharged += 1
        if thorough and build_ok:
            r = sh(["lake", "env", "leanchecker", f"HC.Props.{pid}"], cwd=LEAN, timeout=3600)
            log.append("leanchecker rc=%d %s" % (r.returncode, r.stdout[-500:]))
            if r.returncode != 0:
                failures.append("leanchecker rejected HC.Props.%s" % pid)
    obligations = len(theorems) + len(cfg.get("bridging", []))
    return obligations, discharged, failures, axioms, "\n".join(log)


# alternative builds of the harness (a run whose first word is "@<name>" uses that binary)
ALT_BUILDS = {"nosparse": dict(args=["--no-default-features"], target="target-nosparse")}


def harness_build(features, alts=()):
    lock = os.path.join(HARNESS, "Cargo.lock")
    if not os.path.exists(lock):
        shutil.copy("/repo/Cargo.lock", lock)
    cmd = ["cargo", "build", "--release", "--offline"]
    if features:
        cmd += ["--features", features]
    r = sh(cmd, cwd=HARNESS, timeout=3600)
    ok, out = r.returncode == 0, r.stdout[-3000:]
    for a in alts:
        if not ok:
            break
        ab = ALT_BUILDS[a]
        r = sh(["cargo", "build", "--release", "--offline", "--target-dir", ab["target"]] + ab["args"], cwd=HARNESS, timeout=3600)
        ok, out = r.returncode == 0, out + "\n[" + a + "] " + r.stdout[-2000:]
    return ok, out


def harness_bin(run):
    """binary and arguments of a run: ["@nosparse", "configs", ...] uses the alternative build"""
    if run and run[0].startswith("@"):
        return os.path.join(HARNESS, ALT_BUILDS[run[0][1:]]["target"], "release", "hcverif"), run[1:]
    return os.path.join(HARNESS, "target", "release", "hcverif"), run


def load_known():
    p = os.path.join(ROOT, "known-findings.json")
    if not os.path.exists(p):
        return []
    return json.load(open(p)).get("findings", [])


def main():
    t0 = time.time()
    pid = sys.argv[1]
    tier = os.environ.get("VERIF_TIER") or (sys.argv[2] if len(sys.argv) > 2 else "quick")
    if tier not in ("quick", "thorough"):
        tier = "quick"
    seed = int(os.environ.get("VERIF_SEED") or "20260923")
    replay = None
    if "--replay" in sys.argv:
        replay = sys.argv[sys.argv.index("--replay") + 1]
    cfg = PROPS[pid]
    work = os.path.join(WORK, f"{pid}-{tier}")
    shutil.rmtree(work, ignore_errors=True)
    os.makedirs(work, exist_ok=True)
    os.makedirs(os.path.join(ROOT, "evidence"), exist_ok=True)
    os.makedirs(os.path.join(ROOT, "replays"), exist_ok=True)

    violations = []   # each: dict(kind, key, detail, replay_payload, found_input:bool)

    # ---- Lean side
    obligations, discharged, lean_fail, axioms, lean_log = lean_stage(pid, cfg, tier == "thorough")
    open(os.path.join(work, "lean.log"), "w").write(lean_log)
    drv = os.path.join(LEAN, ".lake", "build", "bin", "drv")
    have_drv = os.path.exists(drv) and DRV_OK

    # ---- harness
    ok, blog = harness_build(cfg.get("features", ""), cfg.get("alt_builds", ()))
    open(os.path.join(work, "cargo.log"), "w").write(blog)
    if not ok:
        print("harness build failed (does /repo still compile?)\n" + blog[-1500:])
        violations.append(dict(kind="build", key="harness-build-failed", detail=blog[-800:], found_input=False))
    stats = {}
    impl_fail = []
    disagreements = []
    n_ops = 0
    if ok:
        runs = cfg["runs"](tier, seed, replay)
        from concurrent.futures import ThreadPoolExecutor
        def one(args):
            ri, run = args
            res = dict(run=run, violations=[], st=None, dis=[], nops=0)
            rdir = os.path.join(work, f"run{ri}")
            os.makedirs(rdir, exist_ok=True)
            try:
                hbin, hargs = harness_bin(run)
                r = sh([hbin] + hargs + ["--out", rdir],
                       cwd=ROOT, timeout=cfg.get("timeout", 3000))
            except subprocess.TimeoutExpired:
                res["violations"].append(dict(kind="harness", key="harness-timeout", detail="harness timed out: " + " ".join(run), found_input=False, payload=dict(cmd=run)))
                return res
            if r.returncode != 0:
                hang = os.path.join(rdir, "hang.txt")
                detail = open(hang).read()[:1500] if os.path.exists(hang) else (r.stdout or "")[-800:]
                res["violations"].append(dict(kind="harness", key=f"harness-exit-{r.returncode}:" + detail[:60],
                                       detail=detail, found_input=os.path.exists(hang), payload=dict(cmd=run, detail=detail)))
                return res
            res["st"] = json.load(open(os.path.join(rdir, "stats.json")))
            ops = os.path.join(rdir, "ops.txt")
            if have_drv and os.path.exists(ops) and cfg.get("model", True):
                with open(ops) as fi, open(os.path.join(rdir, "model.out"), "w") as fo:
                    try:
                        rr = subprocess.run([drv], stdin=fi, stdout=fo, stderr=subprocess.PIPE, text=True,
                                            timeout=cfg.get("timeout", 3000))
                    except subprocess.TimeoutExpired:
                        res["violations"].append(dict(kind="model", key="driver-timeout", detail="lean driver timed out on " + " ".join(run), found_input=False))
                        return res
                if rr.returncode != 0:
                    res["violations"].append(dict(kind="model", key="driver-crashed", detail=rr.stderr[-500:], found_input=False))
                il = open(os.path.join(rdir, "impl.out")).read().split("\n")
                ml = open(os.path.join(rdir, "model.out")).read().split("\n")
                ol = open(ops).read().split("\n")
                res["nops"] = len([x for x in ol if x])
                for i in range(max(len(il), len(ml))):
                    a = il[i] if i < len(il) else "<missing>"
                    b = ml[i] if i < len(ml) else "<missing>"
                    if a != b:
                        # context: the history since the last reset
                        j = i
                        while j > 0 and ol[j] != "reset":
                            j -= 1
                        res["dis"].append(dict(run=run, line=i, op=ol[i] if i < len(ol) else "", impl=a[:2000], model=b[:2000],
                                               history=ol[j:i + 1][-60:]))
                        if len(res["dis"]) > 20:
                            break
            return res
        with ThreadPoolExecutor(max_workers=16) as ex:
            results = list(ex.map(one, list(enumerate(runs))))
        for res in results:
            violations.extend(res["violations"])
            disagreements.extend(res["dis"])
            n_ops += res["nops"]
            st = res["st"]
            if st is None:
                continue
            run = res["run"]
            for k, v in st.items():
                if isinstance(v, (int, float)) and not isinstance(v, bool):
                    stats[k] = stats.get(k, 0) + v
                elif isinstance(v, dict):
                    d = stats.setdefault(k, {})
                    for kk, vv in v.items():
                        d[kk] = d.get(kk, 0) + vv if isinstance(vv, (int, float)) else vv
                elif isinstance(v, list) and k != "failures":
                    stats.setdefault(k, []).extend(v)
                elif k != "failures":
                    stats[k] = v
            for f in st.get("failures", []):
                impl_fail.append(dict(run=run, **(f if isinstance(f, dict) else dict(key=f[:120], detail=f))))

    # ---- classify
    known = [k for k in load_known() if k["property"] == pid]
    known_hit = {}
    def is_known(key):
        for k in known:
            if re.fullmatch(k["match"], key):
                known_hit[k["match"]] = k
                return True
        return False

    for f in impl_fail:
        if is_known(f["key"]):
            continue
        violations.append(dict(kind="implementation-vs-oracle", key=f["key"], detail=f.get("detail", ""),
                               found_input=True, payload=f))
    if not impl_fail or all(is_known(f["key"]) for f in impl_fail):
        # correspondence / proof breakage without an oracle failure of its own
        known_lines = {(tuple(f["run"]), f.get("line")) for f in impl_fail if is_known(f["key"])}
        dis = [d for d in disagreements if (tuple(d["run"]), d["line"]) not in known_lines]
        if dis:
            d = dis[0]
            violations.append(dict(kind="correspondence", key="model-disagreement:" + d["op"][:80],
                                   detail=f"implementation and Lean model differ on {len(dis)} line(s); first: op={d['op'][:200]} impl={d['impl'][:300]} model={d['model'][:300]}",
                                   found_input=False, payload=dict(disagreements=dis[:5],
                                   names=["correspondence " + pid + " (harness vs lean driver)"])))
        for lf in lean_fail:
            violations.append(dict(kind="proof-obligation", key="lean:" + lf[:100], detail=lf, found_input=False,
                                   payload=dict(names=cfg["theorems"] + cfg.get("bridging", []), failure=lf)))

    # ---- evidence
    samples = list(stats.get("samples", []))[:3]
    for ri in range(3):
        p = os.path.join(work, f"run{ri}", "ops.txt")
        if os.path.exists(p):
            with open(p) as f:
                for i, line in enumerate(f):
                    if i >= 3:
                        break
                    samples.append(line.strip()[:400])
    for t in cfg["theorems"][:4]:
        samples.append("theorem " + t)
    trusted = ["Lean 4.33.0 kernel", "axioms: " + ", ".join(sorted({a for v in axioms.values() for a in v}) or ["none"]),
               "tools/extract.py (translator for constants)", "harness + tools/check.py (correspondence, diffing)",
               "Lean compiler/runtime for executing the model"] + cfg.get("trusted", [])
    cov = dict(
        obligations=obligations, discharged=discharged,
        checker_cmd=f"cd lean && lake build HC.Props.{pid} {' '.join(cfg.get('bridge_modules', []))} drv && lake env lean <audit with #print axioms>" + (" && lake env leanchecker HC.Props.%s" % pid if tier == "thorough" else ""),
        trusted_base=trusted,
        theorems=cfg["theorems"], bridging=cfg.get("bridging", []), axioms=axioms,
        partial=cfg.get("partial", ""),
        evaluations=int(stats.get("cases", 0)),
        distinct_nontrivial=int(stats.get("distinct", stats.get("cases", 0))),
        rule=cfg.get("rule", ""),
        samples=samples,
        correspondence=dict(ops_compared=n_ops, disagreements=len(disagreements), implementation_oracle_failures=len(impl_fail)),
        input_distribution={k: v for k, v in stats.items() if k not in ("failures", "samples")},
        known_findings_hit=sorted(known_hit.keys()),
    )
    ev = dict(property_id=pid, tier=tier, seed=seed, level=cfg.get("level", "proof"), coverage=cov,
              assumptions=cfg.get("assumptions", []), wall_s=round(time.time() - t0, 1), violations=len(violations))
    # (tools/try_mutant.py redirects the evidence of runs against a modified tree)
    evdir = os.environ.get("VERIF_EVIDENCE_DIR") or os.path.join(ROOT, "evidence")
    os.makedirs(evdir, exist_ok=True)
    json.dump(ev, open(os.path.join(evdir, f"{pid}.json"), "w"), indent=1)

    for k in known_hit.values():
        print(f"KNOWN-FINDING: property={pid} {k['what']}")
    rc = 0
    seen = set()
    for v in violations:
        if v["key"] in seen:
            continue
        seen.add(v["key"])
        h = hashlib.sha1((pid + v["key"] + v.get("detail", "")).encode()).hexdigest()[:10]
        rp = os.path.join(ROOT, "replays", f"{pid}-{h}.json")
        json.dump(dict(property=pid, seed=seed, tier=tier, kind=v["kind"], key=v["key"], detail=v.get("detail", ""),
                       payload=v.get("payload", {})), open(rp, "w"), indent=1)
        tail = "" if v["found_input"] else " no-failing-input-found"
        print(f"VIOLATION property={pid} replay={rp}{tail}")
        print("  " + v["kind"] + ": " + v.get("detail", "")[:600].replace("\n", " "))
        rc = 1
        if len(seen) >= 8:
            break
    if rc == 0:
        print(f"{pid} {tier}: ok — {discharged}/{obligations} obligations, {cov['evaluations']} cases, "
              f"{n_ops} ops compared with the model, {round(time.time()-t0,1)}s")
    sys.exit(rc)


if __name__ == "__main__":
    main()
