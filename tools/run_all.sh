#!/bin/sh
# run every claimed check (quick by default) on the current tree; prints one line per property
cd "$(dirname "$0")/.." || exit 2
tier="${1:-quick}"
rc=0
for id in C01 C02 C03 C04 C05 C06 C07 C08 C09 C10 C11 C12 C13 C14 C15; do
  out=$(bin/check $id $tier 2>&1); r=$?
  echo "$id rc=$r $(echo "$out" | grep -E 'VIOLATION|KNOWN-FINDING| ok ' | head -3 | tr '\n' ' ' | cut -c1-300)"
  [ $r -ne 0 ] && rc=1
done
exit $rc
