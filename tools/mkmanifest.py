#!/usr/bin/env python3
"""Regenerates MANIFEST.json from tools/props.py (claimed checks) — keeps the interface file consistent."""
import json, os, sys
ROOT = os.path.dirname(os.path.dirname(os.path.abspath(__file__)))
sys.path.insert(0, os.path.join(ROOT, "tools"))
from props import PROPS
TEXT = json.load(open(os.path.join(ROOT, "tools", "manifest_text.json")))
ids = [f"C{i:02d}" for i in range(1, 16)]
claimed = [i for i in ids if i in PROPS]
checks = []
TRUSTED = ("Trusted base: Lean 4 kernel (axioms used: propext, Classical.choice, Quot.sound; no sorry, no native_decide, no axioms of our own), "
           "tools/extract.py (translator for constants, tables and the lock shape) with its bridging lemmas, the harness and the differential "
           "correspondence (tools/check.py), the Lean compiler/runtime for the driver; dependency crates are modelled, not verified.")
USE_PARTIAL = {"C01", "C02", "C03", "C04", "C07", "C08", "C09", "C12"}
def texts(i):
    t = TEXT[i]; p = PROPS[i]
    partial = p.get("partial", "")
    names = ", ".join(x.split(".")[-1] for x in p["theorems"])
    if i in USE_PARTIAL and partial:
        text = f"Lean 4 theorems HC.{i}.* ({names}) over the executable model of the crate, tied to the code by the byte-exact correspondence run and the generated bridging lemmas. " + partial
        cut = -1
        for key in ("Not proved", "Not yet proved"):
            k = partial.find(key)
            if k >= 0: cut = k if cut < 0 else min(cut, k)
        note = ("Partial. " + partial[cut:] + " " if cut >= 0 else "") + TRUSTED
    else:
        text = t["text"] + (" Theorems: " + names + ". " + partial if partial else " Theorems: " + names + ".")
        note = t["note"] + " " + TRUSTED
    if p.get("assumptions"): note += " Assumptions: " + "; ".join(p["assumptions"]) + "."
    return text, note
for i in claimed:
    t = dict(TEXT[i])
    t["text"], t["note"] = texts(i)
    checks.append({
        "property_id": i, "quick_cmd": f"bin/check {i} quick", "thorough_cmd": f"bin/check {i} thorough",
        "evidence_file": f"/verif/evidence/{i}.json", "replay_cmd_template": f"bin/check {i} quick --replay {{path}}",
        "engine": "lean-model+correspondence",
        "level_claimed": {"category": PROPS[i].get("level", "proof"), "text": t["text"], "design_ref": f"DESIGN.md §5 {i}"},
        "level_note": t["note"], "technique": t["technique"],
    })
m = {
    "version": 1,
    "setup_cmd": "cd /verif && sh tools/setup.sh",
    "hooks": {"guard": "datrs_hypercore_verif",
              "enable": "no hooks are needed: every observation point is reachable through the public API (reserved: RUSTFLAGS=\"--cfg datrs_hypercore_verif\")",
              "baseline_off_cmd": "cd /repo && cargo test --workspace --no-fail-fast --offline",
              "source_commits": [], "add_only": True},
    "engines": [{"name": "lean-model+correspondence", "path": "/verif/bin/check", "serves_properties": claimed,
                 "kind_free_text": "Lean 4 theorems over an executable model (lean/), translator for constants (tools/extract.py -> HC/Generated.lean + bridging lemmas), Rust harness calling the real crate in-process over an instrumented backend (harness/), byte-exact differential comparison with the compiled Lean driver, list-model oracle on the implementation"}],
    "checks": checks,
    "not_applicable": [{"property_id": i, "reason": "not claimed in this commit: its Lean theorems and correspondence check are still being built (DESIGN.md §5); the technique applies"} for i in ids if i not in claimed],
    "notes": "See DESIGN.md. known-findings.json lists repaired ('fixed:') and recorded defects of the unchanged tree.",
}
json.dump(m, open(os.path.join(ROOT, "MANIFEST.json"), "w"), indent=1)
print("claimed:", claimed)
